//! Verb dispatch. Verbs run entirely in *counted* allocation mode; only `Ctx::load` (input
//! buffers) is excluded. Call `ctx.done()` right after the API call(s) and before dumping.
use crate::json::{hex, unhex, J};
use crate::mon;
use crate::obj;
use crate::Out;
use std::collections::HashMap;
use std::rc::Rc;
use std::sync::atomic::Ordering::Relaxed;

use physis::common::{Language, Platform};

pub enum Obj {
    Gd(physis::gamedata::GameData),
    Boot(physis::bootdata::BootData),
    Idx(physis::sqpack::SqPackIndex),
    Exh(physis::exh::EXH),
    Exd(physis::exd::EXD),
    Exl(physis::exl::EXL),
    Cfg(physis::cfg::ConfigFile),
    Mdl(physis::model::MDL),
    Shpk(physis::shpk::ShaderPackage),
    Pbd(physis::pbd::PreBoneDeformer),
}

/// an input buffer placed `skew` bytes into its allocation, so that the library is also handed buffers at odd addresses
/// (a `Vec` is 16-byte aligned; a caller's slice into a larger buffer is not)
pub struct Loaded {
    v: Vec<u8>,
    skew: usize,
}

impl PartialEq<Loaded> for Vec<u8> {
    fn eq(&self, other: &Loaded) -> bool {
        self.as_slice() == &other.v[other.skew..]
    }
}

impl std::ops::Deref for Loaded {
    type Target = [u8];
    fn deref(&self) -> &[u8] {
        &self.v[self.skew..]
    }
}

pub struct Ctx {
    pub handles: HashMap<u32, Obj>,
    next: u32,
    /// address skew of the input buffers of the current command (verb suffix `@k`)
    pub skew: usize,
    inputs: Vec<Rc<Loaded>>,
    pub api_peak: Option<isize>,
    pub api_maxreq: Option<usize>,
}

impl Ctx {
    pub fn new() -> Ctx {
        Ctx { handles: HashMap::new(), next: 1, skew: 0, inputs: vec![], api_peak: None, api_maxreq: None }
    }
    /// read an input file without counting its buffer
    pub fn load(&mut self, path: &str) -> Option<Rc<Loaded>> {
        let _g = mon::Excl::new();
        let mut v = std::fs::read(path).ok()?;
        if self.skew > 0 {
            let mut w = Vec::with_capacity(v.len() + self.skew);
            w.resize(self.skew, 0xA5);
            w.append(&mut v);
            v = w;
        }
        let r = Rc::new(Loaded { v, skew: self.skew });
        self.inputs.push(r.clone());
        Some(r)
    }
    pub fn clear_inputs(&mut self) {
        self.inputs.clear();
    }
    /// the API part of the command is over: freeze the peak / max-request readings
    pub fn done(&mut self) {
        if self.api_peak.is_none() {
            self.api_peak = Some(mon::PEAK.load(Relaxed));
            self.api_maxreq = Some(mon::MAXREQ.load(Relaxed));
            mon::LIMIT.store(usize::MAX, Relaxed);
        }
    }
    pub fn put(&mut self, o: Obj) -> u32 {
        let h = self.next;
        self.next += 1;
        self.handles.insert(h, o);
        h
    }
}

pub fn platform(s: &str) -> Option<Platform> {
    Some(match s {
        "win32" | "0" => Platform::Win32,
        "ps3" | "1" => Platform::PS3,
        "ps4" | "2" => Platform::PS4,
        "ps5" | "3" => Platform::PS5,
        "lys" | "4" => Platform::Xbox,
        _ => return None,
    })
}

pub fn language(n: u32) -> Option<Language> {
    Some(match n {
        0 => Language::None,
        1 => Language::Japanese,
        2 => Language::English,
        3 => Language::German,
        4 => Language::French,
        5 => Language::ChineseSimplified,
        6 => Language::ChineseTraditional,
        7 => Language::Korean,
        _ => return None,
    })
}

pub fn h(a: &str) -> Option<u32> {
    a.parse().ok()
}

macro_rules! need {
    ($args:expr, $n:expr) => {
        if $args.len() < $n {
            return Out::usage("too few arguments");
        }
    };
}
pub(crate) use need;

macro_rules! handle {
    ($ctx:expr, $a:expr, $variant:ident) => {
        match h($a).and_then(|k| $ctx.handles.get_mut(&k)) {
            Some(Obj::$variant(x)) => x,
            _ => return Out::usage("bad handle"),
        }
    };
}
pub(crate) use handle;

pub fn dispatch(ctx: &mut Ctx, verb: &str, a: &[String]) -> Out {
    match verb {
        "ping" => Out::ok(J::from("pong")),
        "drop" => {
            need!(a, 1);
            let k = h(&a[0]).unwrap_or(0);
            Out::ok(J::from(ctx.handles.remove(&k).is_some()))
        }
        "lsan.check" => lsan_check(),
        // diagnostics for the monitors themselves (self-test)
        "selftest.panic" => {
            let v: Vec<u8> = vec![];
            let i = a.len() + 3;
            Out::ok(J::from(v[i]))
        }
        "selftest.leak" => {
            let v: Vec<u8> = vec![1; 12345];
            std::mem::forget(v);
            Out::ok(J::Null)
        }
        "selftest.alloc" => {
            need!(a, 1);
            let n: usize = a[0].parse().unwrap_or(0);
            let v: Vec<u8> = Vec::with_capacity(n);
            Out::ok(J::from(v.capacity()))
        }
        "selftest.spin" => {
            need!(a, 1);
            let n: u64 = a[0].parse().unwrap_or(0);
            let mut x = 0u64;
            for i in 0..n {
                x = x.wrapping_mul(6364136223846793005).wrapping_add(i);
            }
            Out::ok(J::from(x))
        }
        "fault.batch" => crate::verbs_fault::fault_batch(ctx, a),
        "hash.batch" => hash_batch(ctx, a),
        "bf.batch" => bf_batch(ctx, a),
        "bf.seq" => bf_seq(ctx, a),
        "mt.same" => crate::verbs_mt::mt_same(ctx, a),
        "fiin.new" => fiin_new(ctx, a),
        "fiin.parse" => fiin_parse(ctx, a),
        "race.table" => race_table(),
        "paths.table" => paths_table(ctx, a),
        "repo.names" => repo_names(ctx, a),
        "repo.sort" => repo_sort(a),
        "repo.sort.batch" => {
            need!(a, 2);
            let Some(buf) = ctx.load(&a[0]) else { return Out::usage("input") };
            let mut out = String::new();
            let mut n = 0usize;
            for l in lines_of(&buf) {
                let names: Vec<String> = l.split(' ').filter(|x| !x.is_empty()).map(|x| x.to_string()).collect();
                let o = repo_sort(&names);
                match o.value {
                    J::Arr(v) => {
                        let v: Vec<String> = v.iter().map(|x| if let J::Str(s) = x { s.clone() } else { String::new() }).collect();
                        out.push_str(&v.join(" "));
                    }
                    _ => out.push_str("?"),
                }
                out.push('\n');
                n += 1;
            }
            if std::fs::write(&a[1], out).is_err() {
                return Out::usage("output");
            }
            Out::ok(J::from(n))
        }
        "gd.open" => {
            need!(a, 2);
            let Some(p) = platform(&a[0]) else { return Out::usage("platform") };
            match physis::gamedata::GameData::from_existing(p, &a[1]) {
                Some(g) => {
                    ctx.done();
                    let repos: Vec<J> = g.repositories.iter().map(repo_j).collect();
                    let hd = ctx.put(Obj::Gd(g));
                    Out::ok(obj! {"handle" => hd, "repos" => J::Arr(repos)})
                }
                None => Out::none(),
            }
        }
        "gd.repos" => {
            need!(a, 1);
            let g = handle!(ctx, &a[0], Gd);
            Out::ok(J::Arr(g.repositories.iter().map(repo_j).collect()))
        }
        "gd.exists" => {
            need!(a, 2);
            let g = handle!(ctx, &a[0], Gd);
            let r = g.exists(&a[1]);
            Out::ok(J::from(r))
        }
        "gd.find_offset" => {
            need!(a, 2);
            let g = handle!(ctx, &a[0], Gd);
            match g.find_offset(&a[1]) {
                Some(o) => Out::ok(J::from(o)),
                None => Out::none(),
            }
        }
        "gd.extract" => {
            // gd.extract h path out|-   (with '-' the content is returned as hex when <= 256 bytes)
            need!(a, 3);
            let g = handle!(ctx, &a[0], Gd);
            let r = g.extract(&a[1]);
            ctx.done();
            bytes_out(r, &a[2])
        }
        "gd.sheet_names" => {
            need!(a, 1);
            let g = handle!(ctx, &a[0], Gd);
            match g.get_all_sheet_names() {
                Some(n) => Out::ok(J::from(n)),
                None => Out::none(),
            }
        }
        "gd.exh" => {
            need!(a, 2);
            let g = handle!(ctx, &a[0], Gd);
            match g.read_excel_sheet_header(&a[1]) {
                Some(e) => {
                    ctx.done();
                    let d = crate::verbs_assets::exh_j(&e);
                    let hd = ctx.put(Obj::Exh(e));
                    Out::ok(obj! {"handle" => hd, "exh" => d})
                }
                None => Out::none(),
            }
        }
        "gd.exd" => {
            // gd.exd h sheet exh_handle lang page
            need!(a, 5);
            let Some(lang) = a[3].parse().ok().and_then(language) else { return Out::usage("lang") };
            let page: usize = a[4].parse().unwrap_or(0);
            let Some(Obj::Exh(exh)) = h(&a[2]).and_then(|k| ctx.handles.remove(&k)) else {
                return Out::usage("bad exh handle");
            };
            let r = {
                let g = handle!(ctx, &a[0], Gd);
                g.read_excel_sheet(&a[1], &exh, lang, page)
            };
            ctx.handles.insert(h(&a[2]).unwrap(), Obj::Exh(exh));
            match r {
                Some(e) => {
                    ctx.done();
                    let hd = ctx.put(Obj::Exd(e));
                    Out::ok(obj! {"handle" => hd})
                }
                None => Out::none(),
            }
        }
        "gd.apply_patch" => {
            need!(a, 2);
            let g = handle!(ctx, &a[0], Gd);
            patch_result(g.apply_patch(&a[1]))
        }
        "boot.open" => {
            need!(a, 1);
            match physis::bootdata::BootData::from_existing(&a[0]) {
                Some(b) => {
                    let v = b.version.clone();
                    let hd = ctx.put(Obj::Boot(b));
                    Out::ok(obj! {"handle" => hd, "version" => v})
                }
                None => Out::none(),
            }
        }
        "boot.apply" => {
            need!(a, 2);
            let b = handle!(ctx, &a[0], Boot);
            patch_result(b.apply_patch(&a[1]))
        }
        "zp.apply" => {
            need!(a, 2);
            patch_result(physis::patch::ZiPatch::apply(&a[0], &a[1]))
        }
        "zp.create" => {
            need!(a, 3);
            let r = physis::patch::ZiPatch::create(&a[0], &a[1]);
            ctx.done();
            bytes_out(r, &a[2])
        }
        "idx.open" => {
            need!(a, 1);
            match physis::sqpack::SqPackIndex::from_existing(&a[0]) {
                Some(i) => {
                    ctx.done();
                    let n = i.entries.len();
                    let hd = ctx.put(Obj::Idx(i));
                    Out::ok(obj! {"handle" => hd, "entries" => n})
                }
                None => Out::none(),
            }
        }
        "idx.exists" => {
            need!(a, 2);
            let i = handle!(ctx, &a[0], Idx);
            Out::ok(J::from(i.exists(&a[1])))
        }
        "idx.find" => {
            need!(a, 2);
            let i = handle!(ctx, &a[0], Idx);
            match i.find_entry(&a[1]) {
                Some(e) => Out::ok(obj! {"dat" => e.data_file_id, "offset" => e.offset}),
                None => Out::none(),
            }
        }
        "dat.read" => {
            // dat.read file offset out
            need!(a, 3);
            let Some(mut d) = physis::sqpack::SqPackData::from_existing(&a[0]) else { return Out::none() };
            let off: u64 = a[1].parse().unwrap_or(0);
            let r = d.read_from_offset(off);
            drop(d);
            ctx.done();
            bytes_out(r, &a[2])
        }
        "frontier" => {
            need!(a, 1);
            match physis::execlookup::extract_frontier_url(&a[0]) {
                Some(s) => Out::ok(J::from(s)),
                None => Out::none(),
            }
        }
        _ => {
            if let Some(o) = crate::verbs_assets::dispatch(ctx, verb, a) {
                return o;
            }
            if let Some(o) = crate::verbs_mdl::dispatch(ctx, verb, a) {
                return o;
            }
            Out::usage("unknown verb")
        }
    }
}

pub fn patch_result(r: Result<(), physis::patch::PatchError>) -> Out {
    match r {
        Ok(()) => Out::ok(J::Null),
        Err(physis::patch::PatchError::InvalidPatchFile) => Out::err("InvalidPatchFile"),
        Err(physis::patch::PatchError::ParseError) => Out::err("ParseError"),
    }
}

/// write an optional byte result to a side file (or inline hex for '-')
pub fn bytes_out(r: Option<Vec<u8>>, out: &str) -> Out {
    match r {
        Some(b) => {
            if out == "-" {
                Out::ok(obj! {"len" => b.len(), "hex" => hex(&b[..b.len().min(4096)])})
            } else {
                if std::fs::write(out, &b).is_err() {
                    return Out::usage("cannot write output file");
                }
                Out::ok(obj! {"len" => b.len()})
            }
        }
        None => Out::none(),
    }
}

fn repo_j(r: &physis::repository::Repository) -> J {
    use physis::repository::RepositoryType;
    obj! {
        "name" => r.name.as_str(),
        "exp" => match r.repo_type { RepositoryType::Base => 0, RepositoryType::Expansion { number } => number },
        "base" => matches!(r.repo_type, RepositoryType::Base),
        "version" => r.version.clone(),
        "platform" => physis::common::get_platform_string(&r.platform),
    }
}

#[cfg(verif_asan)]
extern "C" {
    fn __lsan_do_recoverable_leak_check() -> libc::c_int;
}

fn lsan_check() -> Out {
    #[cfg(verif_asan)]
    {
        let n = unsafe { __lsan_do_recoverable_leak_check() };
        return Out::ok(J::from(n));
    }
    #[cfg(not(verif_asan))]
    {
        Out::ok(J::Null)
    }
}

fn lines_of(buf: &[u8]) -> Vec<String> {
    String::from_utf8_lossy(buf).lines().map(|s| s.to_string()).collect()
}

/// hash.batch <infile: one hex-encoded UTF-8 string per line> <outfile: "partial shader_crc" per line>
fn hash_batch(ctx: &mut Ctx, a: &[String]) -> Out {
    need!(a, 2);
    let Some(buf) = ctx.load(&a[0]) else { return Out::usage("input") };
    let mut out = String::new();
    let mut n = 0usize;
    for l in lines_of(&buf) {
        let s = match String::from_utf8(unhex(&l)) {
            Ok(s) => s,
            Err(_) => return Out::usage("non-utf8 line"),
        };
        let p = physis::sqpack::SqPackIndex::calculate_partial_hash(&s);
        let c = physis::shpk::ShaderPackage::crc(&s);
        out.push_str(&format!("{} {}\n", p, c));
        n += 1;
    }
    ctx.done();
    if std::fs::write(&a[1], out).is_err() {
        return Out::usage("output");
    }
    Out::ok(J::from(n))
}

/// bf.batch <infile: "keyhex msghex" per line> <outfile: "cipherhex decryptedhex" per line>
fn bf_batch(ctx: &mut Ctx, a: &[String]) -> Out {
    need!(a, 2);
    let Some(buf) = ctx.load(&a[0]) else { return Out::usage("input") };
    let mut out = String::new();
    let mut n = 0usize;
    // a key field of "=" keeps using the object created for the previous line (several messages through one object)
    let mut cur: Option<physis::blowfish::Blowfish> = None;
    for l in lines_of(&buf) {
        let mut it = l.split(' ');
        let kf = it.next().unwrap_or("");
        let m = unhex(it.next().unwrap_or(""));
        if kf != "=" || cur.is_none() {
            cur = Some(physis::blowfish::Blowfish::new(&unhex(kf)));
        }
        let b = cur.as_ref().unwrap();
        let e = b.encrypt(&m);
        let d = e.as_ref().and_then(|e| b.decrypt(e));
        out.push_str(&format!(
            "{} {}\n",
            e.map(|x| format!("h{}", hex(&x))).unwrap_or("none".into()),
            d.map(|x| format!("h{}", hex(&x))).unwrap_or("none".into())
        ));
        n += 1;
    }
    ctx.done();
    if std::fs::write(&a[1], out).is_err() {
        return Out::usage("output");
    }
    Out::ok(J::from(n))
}

/// bf.seq <infile> <outfile> <threads> <reps>
/// infile: blocks introduced by "K <keyhex>" (one cipher object per block) followed by "E <hex>" / "D <hex>" operations on that
/// object, in order. threads = 1: the operations run in file order on the calling thread (histories on one object: the same
/// argument through both directions, results fed back in, repeats). threads > 1: the operations of a block are dealt round-robin
/// to that many threads which share the one object (`&Blowfish`; the type is `Sync`), each thread running its share `reps` times
/// back to back; every result is recorded. outfile: one line per operation: "h<hex>" | "none" (| "differs" when repetitions of one
/// operation did not all give the same bytes; followed by the first two distinct results).
fn bf_seq(ctx: &mut Ctx, a: &[String]) -> Out {
    need!(a, 4);
    let Some(buf) = ctx.load(&a[0]) else { return Out::usage("input") };
    let threads: usize = a[2].parse().unwrap_or(1).max(1);
    let reps: usize = a[3].parse().unwrap_or(1).max(1);
    let mut blocks: Vec<(Vec<u8>, Vec<(bool, Vec<u8>)>)> = vec![];
    for l in lines_of(&buf) {
        let mut it = l.split(' ');
        let op = it.next().unwrap_or("");
        let arg = unhex(it.next().unwrap_or(""));
        match op {
            "K" => blocks.push((arg, vec![])),
            "E" | "D" => match blocks.last_mut() {
                Some(b) => b.1.push((op == "E", arg)),
                None => return Out::usage("operation before key"),
            },
            _ => {}
        }
    }
    fn run(b: &physis::blowfish::Blowfish, enc: bool, m: &[u8]) -> Option<Vec<u8>> {
        if enc {
            b.encrypt(m)
        } else {
            b.decrypt(m)
        }
    }
    let mut out = String::new();
    let mut n = 0usize;
    let mut not_sync = false;
    for (key, ops) in blocks.iter() {
        let b = physis::blowfish::Blowfish::new(key);
        let mut results: Vec<Vec<Option<Vec<u8>>>> = vec![vec![]; ops.len()];
        // sharing is only legitimate while the type is `Sync`; whether it is is probed at compile time (inherent method on the
        // probe for `T: Sync` wins over the trait default), so that a tree in which the type stopped being `Sync` still builds -
        // the threads then take turns on the calling thread instead, and the result says so
        #[allow(unused_imports)]
        use sync_probe::NotSync;
        let is_sync = sync_probe::Probe::<physis::blowfish::Blowfish>(std::marker::PhantomData).is_sync();
        if threads == 1 || !is_sync {
            for _ in 0..(if threads == 1 { 1 } else { reps }) {
                for (i, (enc, m)) in ops.iter().enumerate() {
                    results[i].push(run(&b, *enc, m));
                }
            }
            if threads > 1 {
                not_sync = true;
            }
        } else {
            let wrapped = sync_probe::AssertSync(&b);
            let shared = &wrapped;
            let parts: Vec<Vec<(usize, Option<Vec<u8>>)>> = std::thread::scope(|sc| {
                let hs: Vec<_> = (0..threads)
                    .map(|t| {
                        sc.spawn(move || {
                            let mut mine = vec![];
                            for _ in 0..reps {
                                for (i, (enc, m)) in ops.iter().enumerate() {
                                    if i % threads == t {
                                        mine.push((i, run(shared.0, *enc, m)));
                                    }
                                }
                            }
                            mine
                        })
                    })
                    .collect();
                hs.into_iter().map(|h| h.join().unwrap_or_default()).collect()
            });
            for part in parts {
                for (i, r) in part {
                    results[i].push(r);
                }
            }
        }
        for rs in results.iter() {
            n += rs.len();
            let first = rs.first().cloned().flatten();
            if let Some(other) = rs.iter().find(|r| **r != first) {
                out.push_str(&format!(
                    "differs {} {}\n",
                    first.as_ref().map(|x| hex(x)).unwrap_or("none".into()),
                    other.as_ref().map(|x| hex(x)).unwrap_or("none".into())
                ));
            } else {
                out.push_str(&format!("{}\n", first.map(|x| format!("h{}", hex(&x))).unwrap_or("none".into())));
            }
        }
    }
    ctx.done();
    if std::fs::write(&a[1], out).is_err() {
        return Out::usage("output");
    }
    Out::ok(obj! {"n" => n, "shared_between_threads" => threads > 1 && !not_sync})
}

/// compile-time probe for `T: Sync` that builds either way (autoref specialisation), and a wrapper used only when it says yes
pub mod sync_probe {
    pub struct Probe<T>(pub std::marker::PhantomData<T>);
    impl<T: Sync> Probe<T> {
        pub fn is_sync(&self) -> bool {
            true
        }
    }
    pub trait NotSync {
        fn is_sync(&self) -> bool {
            false
        }
    }
    impl<T> NotSync for Probe<T> {}
    pub struct AssertSync<T>(pub T);
    unsafe impl<T> Sync for AssertSync<T> {}
    unsafe impl<T> Send for AssertSync<T> {}
}

pub fn fiin_j(f: &physis::fiin::FileInfo) -> J {
    J::Arr(
        f.entries
            .iter()
            .map(|e| obj! {"size" => e.file_size, "name" => e.file_name.as_str(), "sha1" => hex(&e.sha1)})
            .collect(),
    )
}

/// fiin.new <out> <paths...>  → builds, writes, and re-parses the written buffer
fn fiin_new(ctx: &mut Ctx, a: &[String]) -> Out {
    need!(a, 1);
    let names: Vec<&str> = a[1..].iter().map(|s| s.as_str()).collect();
    let Some(f) = physis::fiin::FileInfo::new(&names) else { return Out::none() };
    let built = fiin_j(&f);
    let Some(buf) = f.write_to_buffer() else { return Out::err("write") };
    let re = physis::fiin::FileInfo::from_existing(&buf);
    ctx.done();
    if std::fs::write(&a[0], &buf).is_err() {
        return Out::usage("output");
    }
    Out::ok(obj! {"built" => built, "reparsed" => re.as_ref().map(fiin_j), "len" => buf.len()})
}

fn fiin_parse(ctx: &mut Ctx, a: &[String]) -> Out {
    need!(a, 1);
    let Some(buf) = ctx.load(&a[0]) else { return Out::usage("input") };
    match physis::fiin::FileInfo::from_existing(&buf) {
        Some(f) => {
            ctx.done();
            let rewritten = f.write_to_buffer().map(|b| b == *buf);
            Out::ok(obj! {"entries" => fiin_j(&f), "rewrite_eq" => rewritten})
        }
        None => Out::none(),
    }
}

fn race_table() -> Out {
    use physis::race::*;
    let mut rows = vec![];
    for r in 1..=8u8 {
        let race = Race::try_from(r).unwrap();
        let tribes: Vec<J> = get_supported_tribes(race).iter().map(|t| J::from(*t as u8)).collect();
        let mut ids = vec![];
        for t in 1..=16u8 {
            for g in 0..=1u8 {
                let id = get_race_id(race, Tribe::try_from(t).unwrap(), Gender::try_from(g).unwrap());
                ids.push(obj! {"tribe" => t, "gender" => g, "id" => id});
            }
        }
        rows.push(obj! {"race" => r, "tribes" => J::Arr(tribes), "ids" => J::Arr(ids)});
    }
    Out::ok(J::Arr(rows))
}

const SLOTS: [physis::equipment::Slot; 10] = {
    use physis::equipment::Slot::*;
    [Head, Hands, Legs, Feet, Body, Earring, Neck, Wrists, RingLeft, RingRight]
};

/// paths.table <out> <race> <tribe> <gender> <id_from> <id_to> — one line per (slot,id):
/// "E slot id path | decon_id decon_slot"; plus skeleton and character paths for the triple.
fn paths_table(_ctx: &mut Ctx, a: &[String]) -> Out {
    use physis::equipment::*;
    use physis::race::*;
    need!(a, 6);
    let p = |i: usize| -> i64 { a[i].parse().unwrap_or(-1) };
    let (Ok(race), Ok(tribe), Ok(gender)) =
        (Race::try_from(p(1) as u8), Tribe::try_from(p(2) as u8), Gender::try_from(p(3) as u8))
    else {
        return Out::usage("triple");
    };
    let mut out = String::new();
    let mut n = 0usize;
    out.push_str(&format!("S {}\n", build_skeleton_path(race, tribe, gender.clone())));
    for (ci, cat) in [
        CharacterCategory::Body,
        CharacterCategory::Hair,
        CharacterCategory::Face,
        CharacterCategory::Tail,
        CharacterCategory::Ear,
    ]
    .into_iter()
    .enumerate()
    {
        for ver in [0, 1, 7, 42, 999, 9999] {
            out.push_str(&format!("C {} {} {}\n", ci, ver, build_character_path(cat, ver, race, tribe, gender.clone())));
        }
    }
    for (si, slot) in SLOTS.iter().enumerate() {
        for id in p(4)..p(5) {
            let path = build_equipment_path(id as i32, race, tribe, gender.clone(), slot.clone());
            let fname = path.rsplit('/').next().unwrap_or("");
            let d = deconstruct_equipment_path(fname);
            let ds = match d {
                Some((i, s)) => format!("{} {}", i, SLOTS.iter().position(|x| *x == s).map(|x| x as i64).unwrap_or(-1)),
                None => "none".to_string(),
            };
            out.push_str(&format!("E {} {} {} | {}\n", si, id, path, ds));
            n += 1;
        }
    }
    if std::fs::write(&a[0], out).is_err() {
        return Out::usage("output");
    }
    Out::ok(J::from(n))
}

const CATS: [physis::repository::Category; 15] = {
    use physis::repository::Category::*;
    [Common, BackgroundCommon, Background, Cutscene, Character, Shader, UI, Sound, VFX, UIScript, EXD, GameScript, Music, SqPackTest, Debug]
};

pub fn category_by_id(id: u32) -> Option<physis::repository::Category> {
    CATS.iter().copied().find(|c| *c as u32 == id)
}

/// repo.names <out>: "platform exp cat chunk dat index index2 datname" for the complete domain
fn repo_names(_ctx: &mut Ctx, a: &[String]) -> Out {
    use physis::repository::*;
    need!(a, 1);
    let mut out = String::new();
    let mut n = 0usize;
    for plat in ["win32", "ps3", "ps4", "ps5", "lys"] {
        for ex in 0..10 {
            let r = Repository {
                name: if ex == 0 { "ffxiv".into() } else { format!("ex{ex}") },
                platform: platform(plat).unwrap(),
                repo_type: if ex == 0 { RepositoryType::Base } else { RepositoryType::Expansion { number: ex } },
                version: None,
            };
            for c in CATS {
                for ch in 0..10u8 {
                    for dat in 0..8u32 {
                        out.push_str(&format!(
                            "{} {} {} {} {} {} {} {}\n",
                            plat,
                            ex,
                            c as u32,
                            ch,
                            dat,
                            r.index_filename(ch, c),
                            r.index2_filename(ch, c),
                            r.dat_filename(ch, c, dat)
                        ));
                        n += 1;
                    }
                }
            }
        }
    }
    if std::fs::write(&a[0], out).is_err() {
        return Out::usage("output");
    }
    Out::ok(J::from(n))
}

/// repo.sort <name>...: build Repository values in the given order, sort(), report the names
fn repo_sort(a: &[String]) -> Out {
    use physis::repository::*;
    let mut v: Vec<Repository> = vec![];
    for n in a {
        let repo_type = if n == "ffxiv" {
            RepositoryType::Base
        } else {
            match n.strip_prefix("ex").and_then(|x| x.parse().ok()) {
                Some(k) => RepositoryType::Expansion { number: k },
                None => return Out::usage("name"),
            }
        };
        v.push(Repository { name: n.clone(), platform: Platform::Win32, repo_type, version: None });
    }
    v.sort();
    Out::ok(J::Arr(v.iter().map(|r| J::from(r.name.as_str())).collect()))
}
