//! mt.same <threads> <reps> <script>
//!
//! Read-only operations on live handles, first on the calling thread (the reference answers), then by `threads` threads that share the
//! objects (`&T`), each running the whole list `reps` times from its own starting point. A type is only shared while it is `Sync`
//! (compile-time probe, see `verbs::sync_probe`); operations on a type that is not are left out of the concurrent part and counted.
//! Every concurrent answer must equal the sequential one (compared through the `Debug` rendering). Script lines:
//!   idx.exists <h> <path> | idx.find <h> <path> | exd.read_row <hexd> <hexh> <id> | shpk.find_node <h> <sel> | pbd.deform <h> <from> <to>
//!   | hash <text>           (path hash and shader-key hash: free functions, any global state behind them is shared by construction)
use crate::obj;
use crate::verbs::sync_probe::{AssertSync, Probe};
#[allow(unused_imports)]
use crate::verbs::sync_probe::NotSync;
use crate::verbs::{Ctx, Obj};
use crate::Out;
use std::marker::PhantomData;

enum Op<'a> {
    IdxExists(AssertSync<&'a physis::sqpack::SqPackIndex>, String),
    IdxFind(AssertSync<&'a physis::sqpack::SqPackIndex>, String),
    ReadRow(AssertSync<&'a physis::exd::EXD>, AssertSync<&'a physis::exh::EXH>, u32),
    FindNode(AssertSync<&'a physis::shpk::ShaderPackage>, u32),
    Deform(AssertSync<&'a physis::pbd::PreBoneDeformer>, u16, u16),
    Hash(String),
}

fn fnv(s: &str) -> u64 {
    let mut h = 0xcbf29ce484222325u64;
    for b in s.bytes() {
        h = (h ^ b as u64).wrapping_mul(0x100000001b3);
    }
    h
}

fn run(op: &Op) -> u64 {
    match op {
        Op::IdxExists(i, p) => fnv(&format!("{:?}", i.0.exists(p))),
        Op::IdxFind(i, p) => fnv(&format!("{:?}", i.0.find_entry(p).map(|e| (e.hash, e.data_file_id, e.offset)))),
        Op::ReadRow(d, h, id) => fnv(&format!("{:?}", d.0.read_row(h.0, *id))),
        Op::FindNode(s, sel) => fnv(&format!("{:?}", s.0.find_node(*sel).map(|n| (n.selector, s.0.nodes.iter().position(|x| std::ptr::eq(x, n)))))),
        Op::Deform(p, a, b) => fnv(&format!("{:?}", p.0.get_deform_matrices(*a, *b).map(|m| m.bones.iter().map(|x| (x.name.clone(), x.deform)).collect::<Vec<_>>()))),
        Op::Hash(s) => fnv(&format!("{} {}", physis::sqpack::SqPackIndex::calculate_partial_hash(s), physis::shpk::ShaderPackage::crc(s))),
    }
}

pub fn mt_same(ctx: &mut Ctx, a: &[String]) -> Out {
    if a.len() < 3 {
        return Out::usage("args");
    }
    let threads: usize = a[0].parse().unwrap_or(2).max(1);
    let reps: usize = a[1].parse().unwrap_or(1).max(1);
    let Some(buf) = ctx.load(&a[2]) else { return Out::usage("input") };
    let text = String::from_utf8_lossy(&buf).to_string();
    let sync_idx = Probe::<physis::sqpack::SqPackIndex>(PhantomData).is_sync();
    let sync_exd = Probe::<physis::exd::EXD>(PhantomData).is_sync() && Probe::<physis::exh::EXH>(PhantomData).is_sync();
    let sync_shpk = Probe::<physis::shpk::ShaderPackage>(PhantomData).is_sync();
    let sync_pbd = Probe::<physis::pbd::PreBoneDeformer>(PhantomData).is_sync();
    let hd = |s: &str| -> Option<&Obj> { s.parse::<u32>().ok().and_then(|k| ctx.handles.get(&k)) };
    let unhex = |s: &str| -> String { String::from_utf8_lossy(&crate::json::unhex(s)).to_string() };
    let mut ops: Vec<Op> = vec![];
    let mut not_shared = 0usize;
    let mut seq_only: Vec<Op> = vec![];
    for l in text.lines() {
        let f: Vec<&str> = l.split(' ').collect();
        let op = match (f.first().copied().unwrap_or(""), f.len()) {
            ("idx.exists", 3) | ("idx.find", 3) => match hd(f[1]) {
                Some(Obj::Idx(i)) => Some((if f[0] == "idx.exists" { Op::IdxExists(AssertSync(i), unhex(f[2])) } else { Op::IdxFind(AssertSync(i), unhex(f[2])) }, sync_idx)),
                _ => return Out::usage("handle"),
            },
            ("exd.read_row", 4) => match (hd(f[1]), hd(f[2])) {
                (Some(Obj::Exd(d)), Some(Obj::Exh(h))) => Some((Op::ReadRow(AssertSync(d), AssertSync(h), f[3].parse().unwrap_or(0)), sync_exd)),
                _ => return Out::usage("handles"),
            },
            ("shpk.find_node", 3) => match hd(f[1]) {
                Some(Obj::Shpk(s)) => Some((Op::FindNode(AssertSync(s), f[2].parse().unwrap_or(0)), sync_shpk)),
                _ => return Out::usage("handle"),
            },
            ("pbd.deform", 4) => match hd(f[1]) {
                Some(Obj::Pbd(p)) => Some((Op::Deform(AssertSync(p), f[2].parse().unwrap_or(0), f[3].parse().unwrap_or(0)), sync_pbd)),
                _ => return Out::usage("handle"),
            },
            ("hash", 2) => Some((Op::Hash(unhex(f[1])), true)),
            _ => None,
        };
        if let Some((op, shareable)) = op {
            if shareable {
                ops.push(op);
            } else {
                not_shared += 1;
                seq_only.push(op);
            }
        }
    }
    // reference answers on the calling thread (twice: an answer must not depend on having been asked before)
    let reference: Vec<u64> = ops.iter().map(run).collect();
    let again: Vec<u64> = ops.iter().map(run).collect();
    let mut mismatches = 0usize;
    let mut first: i64 = -1;
    for (i, (x, y)) in reference.iter().zip(again.iter()).enumerate() {
        if x != y {
            mismatches += 1;
            if first < 0 {
                first = i as i64;
            }
        }
    }
    for op in seq_only.iter() {
        if run(op) != run(op) {
            mismatches += 1;
        }
    }
    let n = ops.len();
    let mut concurrent = 0usize;
    if threads > 1 && n > 0 {
        let opsr = &ops;
        let refr = &reference;
        let parts: Vec<(usize, i64, usize)> = std::thread::scope(|sc| {
            let hs: Vec<_> = (0..threads)
                .map(|t| {
                    sc.spawn(move || {
                        let mut bad = 0usize;
                        let mut first: i64 = -1;
                        let mut done = 0usize;
                        for r in 0..reps {
                            for k in 0..n {
                                let i = (k + t * 7 + r) % n;
                                if run(&opsr[i]) != refr[i] {
                                    bad += 1;
                                    if first < 0 {
                                        first = i as i64;
                                    }
                                }
                                done += 1;
                            }
                        }
                        (bad, first, done)
                    })
                })
                .collect();
            hs.into_iter().map(|h| h.join().unwrap_or((1, -2, 0))).collect()
        });
        for (bad, f, done) in parts {
            mismatches += bad;
            concurrent += done;
            if first < 0 && f != -1 {
                first = f;
            }
        }
    }
    ctx.done();
    Out::ok(obj! {"ops" => n, "threads" => threads, "concurrent_calls" => concurrent, "mismatches" => mismatches, "first" => first, "not_shared_because_not_sync" => not_shared})
}
