//! Model verbs (parse / dump / write / edit histories on live handles).
//!
//! Binary dump format (little-endian), see vlib/fmt/mdl.py `parse_dump`:
//!   "MDLD" u32 nlods { u32 nparts { u16 material_index, u16 0, u32 nverts, nverts x 92-byte vertex,
//!   u32 nindices, nindices x u16, u32 nsub { u32 index_count, u32 index_offset }, u32 nshapes { str name,
//!   u32 nmorph, nmorph x 3 f32 }, u32 nstreams { u32 stride, u32 len, bytes } } }
//!   u32 nbones { str } u32 nmaterials { str }        (str = u32 len + bytes)
//! vertex = position[3] uv0[2] uv1[2] normal[3] bitangent[4] color[4] bone_weight[4] (22 f32) + bone_id[4 u8]
use crate::json::J;
use crate::obj;
use crate::verbs::{h, Ctx, Obj};
use crate::Out;
use physis::model::{NewShapeValue, Vertex, MDL};

fn put_u32(o: &mut Vec<u8>, v: u32) {
    o.extend_from_slice(&v.to_le_bytes());
}
fn put_str(o: &mut Vec<u8>, s: &str) {
    put_u32(o, s.len() as u32);
    o.extend_from_slice(s.as_bytes());
}
fn put_vertex(o: &mut Vec<u8>, v: &Vertex) {
    for x in v.position.iter().chain(v.uv0.iter()).chain(v.uv1.iter()).chain(v.normal.iter()).chain(v.bitangent.iter()).chain(v.color.iter()).chain(v.bone_weight.iter()) {
        o.extend_from_slice(&x.to_bits().to_le_bytes());
    }
    o.extend_from_slice(&v.bone_id);
}

pub fn dump(m: &MDL) -> Vec<u8> {
    let mut o = Vec::new();
    o.extend_from_slice(b"MDLD");
    put_u32(&mut o, m.lods.len() as u32);
    for lod in &m.lods {
        put_u32(&mut o, lod.parts.len() as u32);
        for p in &lod.parts {
            o.extend_from_slice(&p.material_index.to_le_bytes());
            o.extend_from_slice(&0u16.to_le_bytes());
            put_u32(&mut o, p.vertices.len() as u32);
            for v in &p.vertices {
                put_vertex(&mut o, v);
            }
            put_u32(&mut o, p.indices.len() as u32);
            for i in &p.indices {
                o.extend_from_slice(&i.to_le_bytes());
            }
            put_u32(&mut o, p.submeshes.len() as u32);
            for s in &p.submeshes {
                put_u32(&mut o, s.index_count);
                put_u32(&mut o, s.index_offset);
            }
            put_u32(&mut o, p.shapes.len() as u32);
            for s in &p.shapes {
                put_str(&mut o, &s.name);
                put_u32(&mut o, s.morphed_vertices.len() as u32);
                for v in &s.morphed_vertices {
                    for x in v.position.iter() {
                        o.extend_from_slice(&x.to_bits().to_le_bytes());
                    }
                }
            }
            put_u32(&mut o, p.vertex_streams.len() as u32);
            for (i, s) in p.vertex_streams.iter().enumerate() {
                put_u32(&mut o, *p.vertex_stream_strides.get(i).unwrap_or(&0) as u32);
                put_u32(&mut o, s.len() as u32);
                o.extend_from_slice(s);
            }
        }
    }
    put_u32(&mut o, m.affected_bone_names.len() as u32);
    for s in &m.affected_bone_names {
        put_str(&mut o, s);
    }
    put_u32(&mut o, m.material_names.len() as u32);
    for s in &m.material_names {
        put_str(&mut o, s);
    }
    o
}

fn read_vertices(buf: &[u8]) -> Vec<Vertex> {
    let mut out = vec![];
    for rec in buf.chunks_exact(92) {
        let f = |i: usize| f32::from_bits(u32::from_le_bytes(rec[4 * i..4 * i + 4].try_into().unwrap()));
        out.push(Vertex {
            position: [f(0), f(1), f(2)],
            uv0: [f(3), f(4)],
            uv1: [f(5), f(6)],
            normal: [f(7), f(8), f(9)],
            bitangent: [f(10), f(11), f(12), f(13)],
            color: [f(14), f(15), f(16), f(17)],
            bone_weight: [f(18), f(19), f(20), f(21)],
            bone_id: [rec[88], rec[89], rec[90], rec[91]],
        });
    }
    out
}

fn summary(m: &MDL) -> J {
    J::Arr(
        m.lods
            .iter()
            .map(|l| J::Arr(l.parts.iter().map(|p| obj! {"vertices" => p.vertices.len(), "indices" => p.indices.len(), "submeshes" => p.submeshes.len(), "shapes" => p.shapes.len(), "streams" => p.vertex_streams.len()}).collect()))
            .collect(),
    )
}

macro_rules! mdl {
    ($ctx:expr, $a:expr) => {
        match h($a).and_then(|k| $ctx.handles.get_mut(&k)) {
            Some(Obj::Mdl(x)) => x,
            _ => return Some(Out::usage("bad mdl handle")),
        }
    };
}

pub fn dispatch(ctx: &mut Ctx, verb: &str, a: &[String]) -> Option<Out> {
    Some(match verb {
        "mdl.parse" => {
            // mdl.parse <file> <dump|-> [keep]
            if a.len() < 2 { return Some(Out::usage("args")); }
            let Some(buf) = ctx.load(&a[0]) else { return Some(Out::usage("input")) };
            match MDL::from_existing(&buf) {
                Some(m) => {
                    ctx.done();
                    if a[1] != "-" {
                        let d = dump(&m);
                        if std::fs::write(&a[1], &d).is_err() { return Some(Out::usage("output")); }
                    }
                    let s = summary(&m);
                    if a.len() > 2 {
                        let hd = ctx.put(Obj::Mdl(m));
                        Out::ok(obj! {"handle" => hd, "lods" => s})
                    } else {
                        Out::ok(obj! {"lods" => s})
                    }
                }
                None => Out::none(),
            }
        }
        "mdl.dump" => {
            if a.len() < 2 { return Some(Out::usage("args")); }
            let m = mdl!(ctx, &a[0]);
            let d = dump(m);
            if std::fs::write(&a[1], &d).is_err() { return Some(Out::usage("output")); }
            Out::ok(summary(m))
        }
        "mdl.write" => {
            if a.len() < 2 { return Some(Out::usage("args")); }
            let m = mdl!(ctx, &a[0]);
            let r = m.write_to_buffer();
            ctx.done();
            crate::verbs::bytes_out(r, &a[1])
        }
        "mdl.eq" => {
            // model_data equality through the library's own PartialEq
            if a.len() < 2 { return Some(Out::usage("args")); }
            let (Some(Obj::Mdl(x)), Some(Obj::Mdl(y))) = (h(&a[0]).and_then(|k| ctx.handles.get(&k)), h(&a[1]).and_then(|k| ctx.handles.get(&k))) else {
                return Some(Out::usage("handles"));
            };
            Out::ok(J::from(x.model_data == y.model_data))
        }
        "mdl.replace" => {
            // mdl.replace h lod part <vertsfile> <indicesfile> <count,offset;count,offset...|->
            if a.len() < 6 { return Some(Out::usage("args")); }
            let Some(vb) = ctx.load(&a[3]) else { return Some(Out::usage("verts")) };
            let Some(ib) = ctx.load(&a[4]) else { return Some(Out::usage("indices")) };
            let verts = read_vertices(&vb);
            let indices: Vec<u16> = ib.chunks_exact(2).map(|c| u16::from_le_bytes([c[0], c[1]])).collect();
            let lod: usize = a[1].parse().unwrap_or(0);
            let part: usize = a[2].parse().unwrap_or(0);
            let m = mdl!(ctx, &a[0]);
            if lod >= m.lods.len() || part >= m.lods[lod].parts.len() { return Some(Out::usage("lod/part")); }
            // the SubMesh values handed in: by default clones of the part's own list; `rev` = the own list reversed, `tpl=l,p` = the
            // list of another part (a caller can only obtain SubMesh values by cloning parsed ones, from any part, in any order);
            // the i-th value supplies the range of the part's i-th sub-mesh
            let mut subs = m.lods[lod].parts[part].submeshes.clone();
            if let Some(t) = a.get(6) {
                if t == "rev" {
                    subs.reverse();
                } else if let Some(x) = t.strip_prefix("tpl=") {
                    let mut it = x.split(',');
                    let tl: usize = it.next().and_then(|v| v.parse().ok()).unwrap_or(0);
                    let tp: usize = it.next().and_then(|v| v.parse().ok()).unwrap_or(0);
                    if tl < m.lods.len() && tp < m.lods[tl].parts.len() {
                        subs = m.lods[tl].parts[tp].submeshes.clone();
                    }
                }
            }
            if a[5] != "-" {
                for (i, pair) in a[5].split(';').enumerate() {
                    let mut it = pair.split(',');
                    let c: u32 = it.next().and_then(|x| x.parse().ok()).unwrap_or(0);
                    let o: u32 = it.next().and_then(|x| x.parse().ok()).unwrap_or(0);
                    if i < subs.len() {
                        subs[i].index_count = c;
                        subs[i].index_offset = o;
                    }
                }
            }
            m.replace_vertices(lod, part, &verts, &indices, &subs);
            Out::ok(summary(m))
        }
        "mdl.remove_shapes" => {
            if a.is_empty() { return Some(Out::usage("args")); }
            let m = mdl!(ctx, &a[0]);
            m.remove_shape_meshes();
            Out::ok(summary(m))
        }
        "mdl.add_shape" => {
            // mdl.add_shape h lod shape shape_mesh part <valuesfile: records of u32 base_index + 92-byte vertex>
            if a.len() < 6 { return Some(Out::usage("args")); }
            let Some(vb) = ctx.load(&a[5]) else { return Some(Out::usage("values")) };
            let mut vals = vec![];
            for rec in vb.chunks_exact(96) {
                let base = u32::from_le_bytes(rec[0..4].try_into().unwrap());
                let v = read_vertices(&rec[4..96]);
                vals.push(NewShapeValue { base_index: base, replacing_vertex: v[0] });
            }
            let p = |i: usize| -> usize { a[i].parse().unwrap_or(0) };
            let m = mdl!(ctx, &a[0]);
            m.add_shape_mesh(p(1), p(2), p(3), p(4), &vals);
            Out::ok(summary(m))
        }
        "mdl.header" => {
            // observable header facts of a file through the pub API: stack / runtime size calculators
            if a.is_empty() { return Some(Out::usage("args")); }
            let m = mdl!(ctx, &a[0]);
            Out::ok(obj! {"runtime_size" => m.model_data.calculate_runtime_size(), "declarations" => m.model_data.header.vertex_declarations.len()})
        }
        _ => return None,
    })
}
