//! Model verbs (parse / dump / write / edit histories).
use crate::verbs::Ctx;
use crate::Out;

pub fn dispatch(_ctx: &mut Ctx, _verb: &str, _a: &[String]) -> Option<Out> {
    None
}
