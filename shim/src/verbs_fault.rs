//! Fault-enumeration verb: many faulted variants of one seed file through one entry point inside a
//! single command, each under its own panic / allocation / CPU / residual-heap monitor.
//!
//!   fault.batch <kind> <seed> <mutations> <progress> <start> <scratch> [<aux>...]
//!
//! mutations: 13-byte records  u32 offset | u8 width | u64 value
//!   width 0        : truncate the seed to `offset` bytes
//!   width 1,2,4,8  : overwrite `width` bytes at `offset` with `value` (little-endian)
//!   width 0x82/0x84: overwrite 2/4 bytes big-endian
//!   width 0xFF     : insert `value & 0xFF` repeated (value >> 8) times at offset
//!   width 0xFE/0xFD: replace the text token at offset (up to the next TAB CR LF , = ; space) by `value` in decimal (u64 / i64)
//!   width 0xFC     : delete the text token at offset
//!   width 0xFB     : insert multi-byte UTF-8 text number `value` of a fixed table at offset
//! progress: the index of the case in flight is written here before each case so that a process
//! death (allocation failure, stack overflow) is attributable and the batch resumable.
use crate::json::J;
use crate::mon;
use crate::obj;
use crate::verbs::Ctx;
use crate::Out;
use std::collections::HashMap;
use std::panic::{catch_unwind, AssertUnwindSafe};
use std::sync::atomic::Ordering::Relaxed;

/// VERIF_TOUCH=1 (memcheck and Miri stages): every returned value is walked through its `Debug` rendering into a sink that
/// branches on each byte, so that a value built from uninitialised memory is *used* - and therefore reported - even though the
/// batch does not dump results. No allocation: the allocation window of the case is unaffected.
pub static TOUCH: std::sync::atomic::AtomicBool = std::sync::atomic::AtomicBool::new(false);

struct Sink {
    h: u64,
    n: u64,
}

impl std::fmt::Write for Sink {
    fn write_str(&mut self, s: &str) -> std::fmt::Result {
        for b in s.bytes() {
            self.h = self.h.wrapping_mul(0x100000001b3) ^ b as u64;
            if b == b'7' {
                self.n += 1;
            }
        }
        Ok(())
    }
}

pub fn touch<T: std::fmt::Debug>(v: &T) {
    if TOUCH.load(Relaxed) {
        use std::fmt::Write;
        let mut s = Sink { h: 0xcbf29ce484222325, n: 0 };
        let _ = write!(s, "{:?}", v);
        std::hint::black_box((s.h, s.n));
    }
}

fn opt<T: std::fmt::Debug>(o: Option<T>) -> u8 {
    match o {
        Some(v) => {
            touch(&v);
            0
        }
        None => 1,
    }
}

pub struct Aux {
    pub exh: Option<physis::exh::EXH>,
    pub exd: Option<physis::exd::EXD>,
    pub ids: Vec<u32>,
    pub paths: Vec<String>,
    pub offsets: Vec<u64>,
    pub scratch: String,
}

/// run one entry point on a buffer; 0 = ok/value, 1 = none, 2 = err
fn run_kind(kind: &str, buf: &[u8], aux: &Aux, case: usize) -> u8 {
    match kind {
        "cfg" => opt(physis::cfg::ConfigFile::from_existing(buf).map(|c| (c.write_to_buffer(), c.has_key("x")))),
        "exl" => opt(physis::exl::EXL::from_existing(buf).map(|e| (e.write_to_buffer(), e.contains("x")))),
        "fiin" => opt(physis::fiin::FileInfo::from_existing(buf).map(|f| f.write_to_buffer())),
        "chardat" => opt(physis::chardat::CharacterData::from_existing(buf).map(|c| c.write_to_buffer())),
        "gearsets" => opt(physis::gearsets::GearSets::from_existing(buf).map(|g| g.write_to_buffer())),
        "log" => opt(physis::log::ChatLog::from_existing(buf)),
        "plist.boot" | "plist.game" => {
            let s = String::from_utf8_lossy(buf);
            let k = || if kind == "plist.game" { physis::patchlist::PatchListType::Game } else { physis::patchlist::PatchListType::Boot };
            let p = physis::patchlist::PatchList::from_string(k(), &s);
            touch(&p.to_string(k()));
            0
        }
        "mdl" => opt(physis::model::MDL::from_existing(buf)),
        "mdl.write" => match physis::model::MDL::from_existing(buf) {
            Some(m) => opt(m.write_to_buffer()),
            None => 1,
        },
        "mtrl" => opt(physis::mtrl::Material::from_existing(buf)),
        "shpk" => match physis::shpk::ShaderPackage::from_existing(buf) {
            Some(s) => {
                for sel in aux.ids.iter() {
                    let _ = s.find_node(*sel);
                }
                for n in s.nodes.iter().take(8) {
                    let _ = s.find_node(n.selector);
                }
                touch(&s);
                0
            }
            None => 1,
        },
        "tex" => opt(physis::tex::Texture::from_existing(buf).map(|t| (t.width, t.height, t.depth, t.rgba))),
        "exh" => match physis::exh::EXH::from_existing(buf) {
            Some(h) => {
                // a damaged header together with an intact data file
                if let Some(d) = &aux.exd {
                    for id in aux.ids.iter() {
                        touch(&d.read_row(&h, *id));
                    }
                }
                0
            }
            None => 1,
        },
        "exd" => match physis::exd::EXD::from_existing(buf) {
            Some(d) => {
                if let Some(h) = &aux.exh {
                    for id in aux.ids.iter() {
                        touch(&d.read_row(h, *id));
                    }
                }
                0
            }
            None => 1,
        },
        "sklb" => opt(physis::skeleton::Skeleton::from_existing(buf)),
        "pbd" => match physis::pbd::PreBoneDeformer::from_existing(buf) {
            Some(p) => {
                for a in aux.ids.iter() {
                    for b in aux.ids.iter() {
                        touch(&p.get_deform_matrices(*a as u16, *b as u16));
                    }
                }
                0
            }
            None => 1,
        },
        "cmp" => opt(physis::cmp::CMP::from_existing(buf)),
        "tera" => opt(physis::tera::Terrain::from_existing(buf).map(|t| t.write_to_buffer())),
        "stm" => opt(physis::stm::StainingTemplate::from_existing(buf)),
        "dic" => opt(physis::dic::Dictionary::from_existing(buf).map(|d| d.words)),
        "lgb" => opt(physis::layer::LayerGroup::from_existing(buf)),
        "avfx" => opt(physis::avfx::Avfx::from_existing(buf)),
        "sqdb" => opt(physis::sqpack::SqPackDatabase::from_existing(buf)),
        "uld" => opt(physis::uld::Uld::from_existing(buf)),
        "sgb" => opt(physis::sgb::Sgb::from_existing(buf)),
        "scd" => opt(physis::scd::Scd::from_existing(buf)),
        "hwc" => opt(physis::hwc::Hwc::from_existing(buf)),
        "iwc" => opt(physis::iwc::Iwc::from_existing(buf)),
        "tmb" => opt(physis::tmb::Tmb::from_existing(buf)),
        "skp" => opt(physis::skp::Skp::from_existing(buf)),
        "schd" => opt(physis::schd::Schd::from_existing(buf)),
        "phyb" => opt(physis::phyb::Phyb::from_existing(buf)),
        "pap" => opt(physis::pap::Pap::from_existing(buf)),
        // ---- entry points that take a path: the faulted bytes are written to a scratch file first
        "frontier" => {
            let p = format!("{}/fault.exe", aux.scratch);
            let _ = std::fs::write(&p, buf);
            opt(physis::execlookup::extract_frontier_url(&p))
        }
        "index" => {
            let p = format!("{}/fault.index", aux.scratch);
            let _ = std::fs::write(&p, buf);
            match physis::sqpack::SqPackIndex::from_existing(&p) {
                Some(i) => {
                    for q in aux.paths.iter() {
                        touch(&i.exists(q));
                        touch(&i.find_entry(q));
                    }
                    0
                }
                None => 1,
            }
        }
        "dat" => {
            let p = format!("{}/fault.dat", aux.scratch);
            let _ = std::fs::write(&p, buf);
            match physis::sqpack::SqPackData::from_existing(&p) {
                Some(mut d) => {
                    let mut any = 1;
                    for o in aux.offsets.iter() {
                        if let Some(b) = d.read_from_offset(*o) {
                            touch(&b);
                            any = 0;
                        }
                    }
                    any
                }
                None => 1,
            }
        }
        "zp.apply" => {
            // fresh target directory per case (aux.paths[0] may name a template directory to copy)
            let dir = format!("{}/t{}", aux.scratch, case % 4);
            let _ = std::fs::remove_dir_all(&dir);
            let _ = std::fs::create_dir_all(format!("{}/sqpack/ffxiv", dir));
            let p = format!("{}/fault.patch", aux.scratch);
            let _ = std::fs::write(&p, buf);
            let r = physis::patch::ZiPatch::apply(&dir, &p);
            let _ = std::fs::remove_dir_all(&dir);
            match r {
                Ok(()) => 0,
                Err(_) => 2,
            }
        }
        _ => 9,
    }
}

/// multi-byte text for width code 0xFB (same table as vlib/faults.py UTF8_INSERTS)
const UTF8_INSERTS: [&[u8]; 14] = [&[196, 176], &[225, 186, 158], &[195, 169], &[230, 151, 165, 230, 156, 172, 232, 170, 158], &[226, 128, 168], &[240, 157, 132, 158], &[199, 133], &[239, 172, 131], &[13], &[9, 9], &[194, 160], &[239, 187, 191], &[196, 176, 196, 176, 196, 176, 196, 176], &[195, 159]];

fn mutate(seed: &[u8], off: usize, width: u8, value: u64) -> Vec<u8> {
    let mut b = seed.to_vec();
    match width {
        0 => b.truncate(off.min(seed.len())),
        1 | 2 | 4 | 8 => {
            let w = width as usize;
            let le = value.to_le_bytes();
            for i in 0..w {
                if off + i < b.len() {
                    b[off + i] = le[i];
                }
            }
        }
        0x82 | 0x84 => {
            let w = (width & 0xF) as usize;
            let be = value.to_be_bytes();
            for i in 0..w {
                if off + i < b.len() {
                    b[off + i] = be[8 - w + i];
                }
            }
        }
        0xFB => {
            let at = off.min(b.len());
            let tail = b.split_off(at);
            b.extend_from_slice(UTF8_INSERTS[(value as usize) % UTF8_INSERTS.len()]);
            b.extend(tail);
        }
        0xFC | 0xFD | 0xFE => {
            let at = off.min(b.len());
            let mut end = at;
            while end < b.len() && !matches!(b[end], b'\t' | b'\r' | b'\n' | b',' | b'=' | b';' | b' ') {
                end += 1;
            }
            let text = match width {
                0xFE => value.to_string(),
                0xFD => (value as i64).to_string(),
                _ => String::new(),
            };
            let tail = b.split_off(end);
            b.truncate(at);
            b.extend_from_slice(text.as_bytes());
            b.extend(tail);
        }
        0xFF => {
            let n = ((value >> 8) as usize).min(1 << 20);
            let byte = (value & 0xFF) as u8;
            let at = off.min(b.len());
            let tail = b.split_off(at);
            b.extend(std::iter::repeat(byte).take(n));
            b.extend(tail);
        }
        _ => {}
    }
    b
}

pub fn fault_batch(_ctx: &mut Ctx, a: &[String]) -> Out {
    if a.len() < 6 {
        return Out::usage("args");
    }
    // everything of the harness itself is excluded from accounting; only run_kind is counted
    let _outer = mon::Excl::new();
    let kind = a[0].as_str();
    let Ok(seed) = std::fs::read(&a[1]) else { return Out::usage("seed") };
    let Ok(muts) = std::fs::read(&a[2]) else { return Out::usage("mutations") };
    let progress = a[3].clone();
    let start: usize = a[4].parse().unwrap_or(0);
    let mut aux = Aux { exh: None, exd: None, ids: vec![], paths: vec![], offsets: vec![], scratch: a[5].clone() };
    for x in a[6..].iter() {
        if let Some(p) = x.strip_prefix("exh=") {
            aux.exh = std::fs::read(p).ok().and_then(|b| physis::exh::EXH::from_existing(&b));
        } else if let Some(p) = x.strip_prefix("exd=") {
            aux.exd = std::fs::read(p).ok().and_then(|b| physis::exd::EXD::from_existing(&b));
        } else if let Some(p) = x.strip_prefix("ids=") {
            aux.ids = p.split(',').filter_map(|v| v.parse().ok()).collect();
        } else if let Some(p) = x.strip_prefix("paths=") {
            aux.paths = p.split(',').map(|v| v.to_string()).collect();
        } else if let Some(p) = x.strip_prefix("offsets=") {
            aux.offsets = p.split(',').filter_map(|v| v.parse().ok()).collect();
        }
    }
    let n = muts.len() / 13;
    let mut outcomes = [0usize; 4];
    let mut sites: HashMap<(String, u32, String), (usize, usize, Vec<(String, u32, String)>)> = HashMap::new();
    let mut flags: Vec<J> = vec![];
    let mut ok_cases: Vec<J> = vec![];
    let (mut max_cpu, mut max_peak, mut max_req) = (0u64, 0isize, 0usize);
    let cpu_base: u64 = 2_000_000;
    use std::io::{Seek, Write};
    let mut pf = std::fs::OpenOptions::new().create(true).write(true).truncate(true).open(&progress).ok();
    for i in start..n {
        let r = &muts[13 * i..13 * i + 13];
        let off = u32::from_le_bytes(r[0..4].try_into().unwrap()) as usize;
        let width = r[4];
        let value = u64::from_le_bytes(r[5..13].try_into().unwrap());
        // every second case is handed over at an odd address (cases alternate over skews 0..3)
        let skew = (i + _ctx.skew) % 4;
        let mut buf = mutate(&seed, off, width, value);
        if skew > 0 {
            let mut w = Vec::with_capacity(buf.len() + skew);
            w.resize(skew, 0xA5);
            w.append(&mut buf);
            buf = w;
        }
        let buf = &buf[skew..];
        if let Some(f) = pf.as_mut() {
            let _ = f.seek(std::io::SeekFrom::Start(0));
            let _ = f.write_all(&(i as u64).to_le_bytes());
        }
        if i % 400 == 0 {
            mon::flush_coverage();
        }
        *mon::LAST_PANIC.lock().unwrap() = None;
        let limit = 64 * buf.len() + (64 << 20);
        mon::begin_case(i, limit);
        let live_before = mon::LIVE.load(Relaxed);
        let malloc_before = mon::malloc_in_use();
        let cpu0 = mon::cpu_us();
        let res = {
            let _c = mon::Counted::new();
            let r = catch_unwind(AssertUnwindSafe(|| run_kind(kind, buf, &aux, i)));
            match r {
                Ok(v) => Ok(v),
                Err(p) => {
                    drop(p);
                    Err(())
                }
            }
        };
        let cpu = mon::cpu_us() - cpu0;
        let live_after = mon::LIVE.load(Relaxed);
        let malloc_delta = mon::malloc_in_use() as i64 - malloc_before as i64;
        let peak = mon::PEAK.load(Relaxed) - live_before;
        let mreq = mon::MAXREQ.load(Relaxed);
        max_cpu = max_cpu.max(cpu);
        max_peak = max_peak.max(peak);
        max_req = max_req.max(mreq);
        match res {
            Ok(9) => return Out::usage("unknown kind"),
            Ok(v) => {
                outcomes[v.min(2) as usize] += 1;
                if v == 0 && ok_cases.len() < 4000 {
                    ok_cases.push(J::from(i));
                }
            }
            Err(()) => {
                outcomes[3] += 1;
                if let Some(p) = mon::LAST_PANIC.lock().unwrap().take() {
                    let msg: String = p.msg.chars().take(200).collect();
                    let e = sites.entry((p.file.clone(), p.line, msg)).or_insert((0, i, p.frames.clone()));
                    e.0 += 1;
                }
            }
        }
        let budget = cpu_base + 20_000_000 * buf.len() as u64 / (1 << 20);
        if cpu > budget && flags.len() < 200 {
            flags.push(obj! {"case" => i, "kind" => "cpu", "value" => cpu, "budget" => budget});
        }
        if (peak as usize > limit || mreq > limit) && flags.len() < 200 {
            flags.push(obj! {"case" => i, "kind" => "alloc", "value" => (peak as usize).max(mreq), "budget" => limit});
        }
        if res.is_ok() && live_after != live_before && flags.len() < 200 {
            flags.push(obj! {"case" => i, "kind" => "residual", "value" => (live_after - live_before) as i64, "budget" => 0});
        }
        // (the C-allocator reading is too noisy to be a verdict: tcache and arena trimming move it by
        // hundreds of KiB; foreign-allocator leaks are decided by LSan in the asan variant instead)
        let _ = malloc_delta;
        // a leak per case must not accumulate into the next case's accounting
    }
    let mut sv: Vec<J> = vec![];
    for ((file, line, msg), (count, first, frames)) in sites {
        sv.push(obj! {"file" => file, "line" => line, "msg" => msg, "count" => count, "first_case" => first,
            "frames" => J::Arr(frames.iter().take(6).map(|(f, l, s)| obj!{"file" => f.as_str(), "line" => *l, "sym" => s.as_str()}).collect())});
    }
    Out::ok(obj! {
        "n" => n - start.min(n),
        "ok" => outcomes[0], "none" => outcomes[1], "err" => outcomes[2], "panic" => outcomes[3],
        "sites" => J::Arr(sv), "flags" => J::Arr(flags), "ok_cases" => J::Arr(ok_cases),
        "max_cpu_us" => max_cpu, "max_peak" => max_peak as i64, "max_req" => max_req,
    })
}
