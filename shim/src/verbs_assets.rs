//! Verbs for excel, text/user files and asset decoders.
use crate::json::{hex, J};
use crate::obj;
use crate::verbs::{h, handle, need, Ctx, Obj};
use crate::Out;

pub fn exh_j(e: &physis::exh::EXH) -> J {
    obj! {
        "data_offset" => e.header.data_offset,
        "row_count" => e.header.row_count,
        "columns" => J::Arr(e.column_definitions.iter().map(|c| obj!{"type" => c.data_type.clone() as u16, "offset" => c.offset}).collect()),
        "pages" => J::Arr(e.pages.iter().map(|p| obj!{"start" => p.start_id, "count" => p.row_count}).collect()),
        "languages" => J::Arr(e.languages.iter().map(|l| J::from(*l as u8)).collect()),
    }
}

fn col_j(c: &physis::exd::ColumnData) -> J {
    use physis::exd::ColumnData::*;
    match c {
        String(s) => obj! {"t" => "s", "v" => s.as_str()},
        Bool(b) => obj! {"t" => "b", "v" => *b},
        Int8(v) => obj! {"t" => "i8", "v" => *v},
        UInt8(v) => obj! {"t" => "u8", "v" => *v},
        Int16(v) => obj! {"t" => "i16", "v" => *v},
        UInt16(v) => obj! {"t" => "u16", "v" => *v},
        Int32(v) => obj! {"t" => "i32", "v" => *v},
        UInt32(v) => obj! {"t" => "u32", "v" => *v},
        Float32(v) => obj! {"t" => "f32", "v" => v.to_bits()},
        Int64(v) => obj! {"t" => "i64", "v" => *v},
        UInt64(v) => obj! {"t" => "u64", "v" => *v},
    }
}

fn rows_j(r: Option<Vec<physis::exd::ExcelRow>>) -> Out {
    match r {
        Some(rows) => Out::ok(J::Arr(rows.iter().map(|r| J::Arr(r.data.iter().map(col_j).collect())).collect())),
        None => Out::none(),
    }
}

fn dbg_out<T: std::fmt::Debug>(ctx: &mut Ctx, r: Option<T>) -> Out {
    match r {
        Some(v) => {
            ctx.done();
            Out::ok(J::from(format!("{:?}", v)))
        }
        None => Out::none(),
    }
}

fn f3(a: &[f32]) -> J {
    J::Arr(a.iter().map(|x| J::from(*x)).collect())
}

fn parse_kv(buf: &[u8]) -> Vec<(String, String)> {
    String::from_utf8_lossy(buf)
        .lines()
        .filter_map(|l| l.split_once(' ').map(|(a, b)| (a.to_string(), b.to_string())))
        .collect()
}

fn unhex_s(s: &str) -> String {
    if s == "-" {
        return String::new();
    }
    String::from_utf8_lossy(&crate::json::unhex(s)).into_owned()
}

fn cfg_j(c: &physis::cfg::ConfigFile) -> J {
    let mut settings = vec![];
    let mut keys: Vec<&String> = c.settings.keys().collect();
    keys.sort();
    for k in keys {
        let m = &c.settings[k];
        settings.push(obj! {"cat" => k.as_str(), "keys" => J::Arr(m.keys.iter().map(|(a, b)| J::Arr(vec![J::from(a.as_str()), J::from(b.as_str())])).collect())});
    }
    obj! {"categories" => c.categories.clone(), "settings" => J::Arr(settings)}
}

fn exl_j(e: &physis::exl::EXL) -> J {
    obj! {"version" => e.version, "entries" => J::Arr(e.entries.iter().map(|(a, b)| J::Arr(vec![J::from(a.as_str()), J::from(*b)])).collect())}
}

fn chardat_j(c: &physis::chardat::CharacterData) -> J {
    let d = &c.customize;
    obj! {
        "version" => c.version, "timestamp" => c.timestamp, "comment" => c.comment.as_str(),
        "race" => d.race as u8, "gender" => d.gender.clone() as u8, "age" => d.age, "height" => d.height,
        "tribe" => d.tribe as u8, "face" => d.face, "hair" => d.hair, "enable_highlights" => d.enable_highlights as u8,
        "skin_tone" => d.skin_tone, "right_eye_color" => d.right_eye_color, "hair_tone" => d.hair_tone,
        "highlights" => d.highlights, "facial_features" => d.facial_features, "facial_feature_color" => d.facial_feature_color,
        "eyebrows" => d.eyebrows, "left_eye_color" => d.left_eye_color, "eyes" => d.eyes, "nose" => d.nose, "jaw" => d.jaw,
        "mouth" => d.mouth, "lips_tone_fur_pattern" => d.lips_tone_fur_pattern, "race_feature_size" => d.race_feature_size,
        "race_feature_type" => d.race_feature_type, "bust" => d.bust, "face_paint" => d.face_paint,
        "face_paint_color" => d.face_paint_color, "voice" => d.voice,
    }
}

fn gearsets_j(g: &physis::gearsets::GearSets) -> J {
    let mut sets = vec![];
    for (i, s) in g.gearsets.iter().enumerate() {
        if let Some(s) = s {
            let mut slots: Vec<(usize, u32, Option<u32>)> =
                s.slots.iter().map(|(k, v)| (k.clone() as usize, v.id, v.glamour_id)).collect();
            slots.sort();
            sets.push(obj! {
                "pos" => i, "index" => s.index, "name" => s.name.as_str(), "facewear" => s.facewear,
                "slots" => J::Arr(slots.iter().map(|(k, id, g)| obj!{"slot" => *k, "id" => *id, "glamour" => *g}).collect()),
            });
        }
    }
    obj! {"current" => g.current_gearset, "count" => g.gearsets.len(), "sets" => J::Arr(sets)}
}

pub fn dispatch(ctx: &mut Ctx, verb: &str, a: &[String]) -> Option<Out> {
    Some(match verb {
        // ---------------------------------------------------------------- excel
        "exh.parse" => {
            if a.is_empty() { return Some(Out::usage("args")); }
            let Some(buf) = ctx.load(&a[0]) else { return Some(Out::usage("input")) };
            match physis::exh::EXH::from_existing(&buf) {
                Some(e) => {
                    ctx.done();
                    let d = exh_j(&e);
                    let hd = ctx.put(Obj::Exh(e));
                    Out::ok(obj! {"handle" => hd, "exh" => d})
                }
                None => Out::none(),
            }
        }
        "exd.parse" => {
            if a.is_empty() { return Some(Out::usage("args")); }
            let Some(buf) = ctx.load(&a[0]) else { return Some(Out::usage("input")) };
            match physis::exd::EXD::from_existing(&buf) {
                Some(e) => {
                    ctx.done();
                    let hd = ctx.put(Obj::Exd(e));
                    Out::ok(obj! {"handle" => hd})
                }
                None => Out::none(),
            }
        }
        "exd.read_row" => {
            // exd.read_row exd exh id
            if a.len() < 3 { return Some(Out::usage("args")); }
            let id: u32 = a[2].parse().unwrap_or(0);
            let (Some(Obj::Exd(exd)), Some(Obj::Exh(exh))) =
                (h(&a[0]).and_then(|k| ctx.handles.get(&k)), h(&a[1]).and_then(|k| ctx.handles.get(&k)))
            else {
                return Some(Out::usage("handles"));
            };
            let r = exd.read_row(exh, id);
            ctx.done();
            rows_j(r)
        }
        "exd.filename" => {
            // exd.filename name lang start
            if a.len() < 3 { return Some(Out::usage("args")); }
            let Some(lang) = a[1].parse().ok().and_then(crate::verbs::language) else { return Some(Out::usage("lang")) };
            let page = physis::exh::ExcelDataPagination { start_id: a[2].parse().unwrap_or(0), row_count: 0 };
            Out::ok(J::from(physis::exd::EXD::calculate_filename(&a[0], lang, &page)))
        }
        "exl.parse" => {
            if a.is_empty() { return Some(Out::usage("args")); }
            let Some(buf) = ctx.load(&a[0]) else { return Some(Out::usage("input")) };
            match physis::exl::EXL::from_existing(&buf) {
                Some(e) => {
                    ctx.done();
                    let d = exl_j(&e);
                    let hd = ctx.put(Obj::Exl(e));
                    Out::ok(obj! {"handle" => hd, "exl" => d})
                }
                None => Out::none(),
            }
        }
        "exl.write" => {
            if a.len() < 2 { return Some(Out::usage("args")); }
            let e = match h(&a[0]).and_then(|k| ctx.handles.get(&k)) { Some(Obj::Exl(x)) => x, _ => return Some(Out::usage("handle")) };
            let r = e.write_to_buffer();
            ctx.done();
            crate::verbs::bytes_out(r, &a[1])
        }
        "exl.contains" => {
            if a.len() < 2 { return Some(Out::usage("args")); }
            let e = match h(&a[0]).and_then(|k| ctx.handles.get(&k)) { Some(Obj::Exl(x)) => x, _ => return Some(Out::usage("handle")) };
            Out::ok(J::from(e.contains(&a[1])))
        }
        "exl.build" => {
            // exl.build <specfile: first line version, then "hexname id"> -> handle (object built through pub fields)
            if a.is_empty() { return Some(Out::usage("args")); }
            let Some(buf) = ctx.load(&a[0]) else { return Some(Out::usage("input")) };
            let text = String::from_utf8_lossy(&buf).into_owned();
            let mut lines = text.lines();
            let version: i32 = lines.next().and_then(|x| x.parse().ok()).unwrap_or(0);
            let mut entries = vec![];
            for l in lines {
                if let Some((n, i)) = l.split_once(' ') {
                    entries.push((unhex_s(n), i.parse().unwrap_or(0)));
                }
            }
            let hd = ctx.put(Obj::Exl(physis::exl::EXL { version, entries }));
            Out::ok(obj! {"handle" => hd})
        }
        // ---------------------------------------------------------------- cfg
        "cfg.parse" => {
            if a.is_empty() { return Some(Out::usage("args")); }
            let Some(buf) = ctx.load(&a[0]) else { return Some(Out::usage("input")) };
            match physis::cfg::ConfigFile::from_existing(&buf) {
                Some(c) => {
                    ctx.done();
                    let d = cfg_j(&c);
                    let hd = ctx.put(Obj::Cfg(c));
                    Out::ok(obj! {"handle" => hd, "cfg" => d})
                }
                None => Out::none(),
            }
        }
        "cfg.build" => {
            // cfg.build <specfile: lines "C hexname" | "K hexkey hexvalue"> -> handle (through pub fields)
            if a.is_empty() { return Some(Out::usage("args")); }
            let Some(buf) = ctx.load(&a[0]) else { return Some(Out::usage("input")) };
            let mut c = physis::cfg::ConfigFile { categories: vec![], settings: std::collections::HashMap::new() };
            let mut cur: Option<String> = None;
            for l in String::from_utf8_lossy(&buf).lines() {
                let p: Vec<&str> = l.split(' ').collect();
                if p[0] == "C" {
                    let n = unhex_s(p.get(1).unwrap_or(&""));
                    c.categories.push(n.clone());
                    cur = Some(n);
                } else if p[0] == "K" {
                    if let Some(cat) = &cur {
                        c.settings
                            .entry(cat.clone())
                            .or_insert_with(|| physis::cfg::ConfigMap { keys: vec![] })
                            .keys
                            .push((unhex_s(p.get(1).unwrap_or(&"")), unhex_s(p.get(2).unwrap_or(&""))));
                    }
                }
            }
            let hd = ctx.put(Obj::Cfg(c));
            Out::ok(obj! {"handle" => hd})
        }
        "cfg.write" => {
            if a.len() < 2 { return Some(Out::usage("args")); }
            let c = handle_ref!(ctx, &a[0], Cfg);
            let r = c.write_to_buffer();
            ctx.done();
            crate::verbs::bytes_out(r, &a[1])
        }
        "cfg.set" => {
            if a.len() < 3 { return Some(Out::usage("args")); }
            let c = match h(&a[0]).and_then(|k| ctx.handles.get_mut(&k)) { Some(Obj::Cfg(x)) => x, _ => return Some(Out::usage("handle")) };
            c.set_value(&a[1], &a[2]);
            Out::ok(cfg_j(c))
        }
        "cfg.has_key" => {
            if a.len() < 2 { return Some(Out::usage("args")); }
            let c = handle_ref!(ctx, &a[0], Cfg);
            Out::ok(J::from(c.has_key(&a[1])))
        }
        "cfg.has_category" => {
            if a.len() < 2 { return Some(Out::usage("args")); }
            let c = handle_ref!(ctx, &a[0], Cfg);
            Out::ok(J::from(c.has_category(&a[1])))
        }
        "cfg.dump" => {
            if a.is_empty() { return Some(Out::usage("args")); }
            let c = handle_ref!(ctx, &a[0], Cfg);
            Out::ok(cfg_j(c))
        }
        // ---------------------------------------------------------------- user files
        "chardat.parse" => {
            if a.is_empty() { return Some(Out::usage("args")); }
            let Some(buf) = ctx.load(&a[0]) else { return Some(Out::usage("input")) };
            match physis::chardat::CharacterData::from_existing(&buf) {
                Some(c) => {
                    ctx.done();
                    let rewritten = c.write_to_buffer();
                    Out::ok(obj! {"data" => chardat_j(&c), "rewrite_eq" => rewritten.as_ref().map(|b| *b == *buf), "rewrite_hex" => rewritten.map(|b| hex(&b))})
                }
                None => Out::none(),
            }
        }
        "chardat.write" => {
            // chardat.write <spec: "field value" lines, comment as "comment <hex>"> <out>
            if a.len() < 2 { return Some(Out::usage("args")); }
            let Some(buf) = ctx.load(&a[0]) else { return Some(Out::usage("input")) };
            use physis::race::*;
            let mut c = physis::chardat::CharacterData { version: 0, customize: Default::default(), timestamp: 0, comment: String::new() };
            for (k, v) in parse_kv(&buf) {
                let n: u64 = v.parse().unwrap_or(0);
                let d = &mut c.customize;
                match k.as_str() {
                    "version" => c.version = n as u32,
                    "timestamp" => c.timestamp = n as u32,
                    "comment" => c.comment = unhex_s(&v),
                    "race" => match Race::try_from(n as u8) { Ok(r) => d.race = r, Err(_) => return Some(Out::usage("race")) },
                    "tribe" => match Tribe::try_from(n as u8) { Ok(r) => d.tribe = r, Err(_) => return Some(Out::usage("tribe")) },
                    "gender" => match Gender::try_from(n as u8) { Ok(r) => d.gender = r, Err(_) => return Some(Out::usage("gender")) },
                    "age" => d.age = n as u8,
                    "height" => d.height = n as u8,
                    "face" => d.face = n as u8,
                    "hair" => d.hair = n as u8,
                    "enable_highlights" => d.enable_highlights = n != 0,
                    "skin_tone" => d.skin_tone = n as u8,
                    "right_eye_color" => d.right_eye_color = n as u8,
                    "hair_tone" => d.hair_tone = n as u8,
                    "highlights" => d.highlights = n as u8,
                    "facial_features" => d.facial_features = n as u8,
                    "facial_feature_color" => d.facial_feature_color = n as u8,
                    "eyebrows" => d.eyebrows = n as u8,
                    "left_eye_color" => d.left_eye_color = n as u8,
                    "eyes" => d.eyes = n as u8,
                    "nose" => d.nose = n as u8,
                    "jaw" => d.jaw = n as u8,
                    "mouth" => d.mouth = n as u8,
                    "lips_tone_fur_pattern" => d.lips_tone_fur_pattern = n as u8,
                    "race_feature_size" => d.race_feature_size = n as u8,
                    "race_feature_type" => d.race_feature_type = n as u8,
                    "bust" => d.bust = n as u8,
                    "face_paint" => d.face_paint = n as u8,
                    "face_paint_color" => d.face_paint_color = n as u8,
                    "voice" => d.voice = n as u8,
                    _ => return Some(Out::usage("unknown field")),
                }
            }
            let r = c.write_to_buffer();
            let re = r.as_ref().and_then(|b| physis::chardat::CharacterData::from_existing(b));
            ctx.done();
            let rj = re.as_ref().map(chardat_j);
            match crate::verbs::bytes_out(r, &a[1]) {
                Out { outcome, value } if outcome == "ok" => Out::ok(obj! {"out" => value, "reparsed" => rj}),
                o => o,
            }
        }
        "gearsets.parse" => {
            if a.is_empty() { return Some(Out::usage("args")); }
            let Some(buf) = ctx.load(&a[0]) else { return Some(Out::usage("input")) };
            match physis::gearsets::GearSets::from_existing(&buf) {
                Some(g) => {
                    ctx.done();
                    let rewritten = g.write_to_buffer().map(|b| b == *buf);
                    Out::ok(obj! {"data" => gearsets_j(&g), "rewrite_eq" => rewritten})
                }
                None => Out::none(),
            }
        }
        "gearsets.write" => {
            // gearsets.write <template> <spec> <out>
            // spec lines: "current N" | "set pos index hexname facewear" | "slot pos slotidx id glamour"
            if a.len() < 3 { return Some(Out::usage("args")); }
            let Some(tbuf) = ctx.load(&a[0]) else { return Some(Out::usage("template")) };
            let Some(sbuf) = ctx.load(&a[1]) else { return Some(Out::usage("spec")) };
            let Some(mut g) = physis::gearsets::GearSets::from_existing(&tbuf) else { return Some(Out::usage("template parse")) };
            for s in g.gearsets.iter_mut() {
                *s = None;
            }
            for l in String::from_utf8_lossy(&sbuf).lines() {
                let p: Vec<&str> = l.split(' ').collect();
                let n = |i: usize| -> u64 { p.get(i).and_then(|x| x.parse().ok()).unwrap_or(0) };
                match p[0] {
                    "current" => g.current_gearset = n(1) as u8,
                    "set" => {
                        let mut s = physis::gearsets::GearSet::default();
                        s.index = n(2) as u8;
                        s.name = unhex_s(p.get(3).unwrap_or(&""));
                        s.facewear = if n(4) == 0 { None } else { Some(n(4) as u32) };
                        let pos = n(1) as usize;
                        if pos < g.gearsets.len() {
                            g.gearsets[pos] = Some(s);
                        }
                    }
                    "slot" => {
                        let pos = n(1) as usize;
                        let Ok(st) = physis::gearsets::GearSlotType::try_from(n(2) as usize) else { return Some(Out::usage("slot")) };
                        let mut sl = physis::gearsets::GearSlot::default();
                        sl.id = n(3) as u32;
                        sl.glamour_id = if n(4) == 0 { None } else { Some(n(4) as u32) };
                        if let Some(Some(s)) = g.gearsets.get_mut(pos) {
                            s.slots.insert(st, sl);
                        }
                    }
                    _ => {}
                }
            }
            // optional 4th argument: the public list shortened to that many entries before writing (the file still holds 100 records)
            if let Some(k) = a.get(3).and_then(|x| x.parse::<usize>().ok()) {
                g.gearsets.truncate(k);
            }
            let r = g.write_to_buffer();
            let re = r.as_ref().and_then(|b| physis::gearsets::GearSets::from_existing(b));
            ctx.done();
            let rj = re.as_ref().map(gearsets_j);
            match crate::verbs::bytes_out(r, &a[2]) {
                Out { outcome, value } if outcome == "ok" => Out::ok(obj! {"out" => value, "reparsed" => rj}),
                o => o,
            }
        }
        "log.parse" => {
            if a.is_empty() { return Some(Out::usage("args")); }
            let Some(buf) = ctx.load(&a[0]) else { return Some(Out::usage("input")) };
            match physis::log::ChatLog::from_existing(&buf) {
                Some(l) => {
                    ctx.done();
                    Out::ok(J::Arr(l.entries.iter().map(|e| obj!{"filter" => format!("{:?}", e.filter), "channel" => format!("{:?}", e.channel), "message" => e.message.as_str()}).collect()))
                }
                None => Out::none(),
            }
        }
        "plist.to_string" => {
            // plist.to_string <boot|game> <spec> <out>; spec: line1 hex id, line2 hex content_location, then
            // "hexurl hexversion hash_block_size length size_on_disk hexhash,hexhash.. ua ub"
            if a.len() < 3 { return Some(Out::usage("args")); }
            let Some(buf) = ctx.load(&a[1]) else { return Some(Out::usage("input")) };
            use physis::patchlist::*;
            let text = String::from_utf8_lossy(&buf).into_owned();
            let mut lines = text.lines();
            let id = unhex_s(lines.next().unwrap_or(""));
            let loc = unhex_s(lines.next().unwrap_or(""));
            let mut patches = vec![];
            for l in lines {
                let f: Vec<&str> = l.split(' ').collect();
                if f.len() < 8 { continue; }
                patches.push(PatchEntry {
                    url: unhex_s(f[0]),
                    version: unhex_s(f[1]),
                    hash_block_size: f[2].parse().unwrap_or(0),
                    length: f[3].parse().unwrap_or(0),
                    size_on_disk: f[4].parse().unwrap_or(0),
                    hashes: if f[5] == "-" { vec![] } else { f[5].split(',').map(unhex_s).collect() },
                    unknown_a: f[6].parse().unwrap_or(0),
                    unknown_b: f[7].parse().unwrap_or(0),
                });
            }
            let pl = PatchList { id, patch_length: 0, content_location: loc, requested_version: String::new(), patches };
            let kind = if a[0] == "game" { PatchListType::Game } else { PatchListType::Boot };
            let s = pl.to_string(kind);
            ctx.done();
            crate::verbs::bytes_out(Some(s.into_bytes()), &a[2])
        }
        "plist.from_string" => {
            // plist.from_string <boot|game> <file>  (file must be UTF-8; lossy otherwise)
            if a.len() < 2 { return Some(Out::usage("args")); }
            let Some(buf) = ctx.load(&a[1]) else { return Some(Out::usage("input")) };
            use physis::patchlist::*;
            let text = String::from_utf8_lossy(&buf).into_owned();
            let kind = || if a[0] == "game" { PatchListType::Game } else { PatchListType::Boot };
            let p = PatchList::from_string(kind(), &text);
            let again = p.to_string(kind());
            ctx.done();
            Out::ok(obj! {
                "patch_length" => p.patch_length,
                "patches" => J::Arr(p.patches.iter().map(|e| obj!{"url" => e.url.as_str(), "version" => e.version.as_str(), "hash_block_size" => e.hash_block_size, "length" => e.length, "size_on_disk" => e.size_on_disk, "hashes" => e.hashes.clone()}).collect()),
                "again_len" => again.len(),
            })
        }
        // ---------------------------------------------------------------- assets
        "tex.parse" => {
            if a.len() < 2 { return Some(Out::usage("args")); }
            let Some(buf) = ctx.load(&a[0]) else { return Some(Out::usage("input")) };
            match physis::tex::Texture::from_existing(&buf) {
                Some(t) => {
                    ctx.done();
                    if a[1] != "-" && std::fs::write(&a[1], &t.rgba).is_err() {
                        return Some(Out::usage("output"));
                    }
                    Out::ok(obj! {"width" => t.width, "height" => t.height, "depth" => t.depth, "len" => t.rgba.len(),
                        "three_d" => matches!(t.texture_type, physis::tex::TextureType::ThreeDimensional)})
                }
                None => Out::none(),
            }
        }
        "mtrl.parse" => {
            if a.is_empty() { return Some(Out::usage("args")); }
            let Some(buf) = ctx.load(&a[0]) else { return Some(Out::usage("input")) };
            let r = physis::mtrl::Material::from_existing(&buf);
            dbg_out(ctx, r)
        }
        "shpk.parse" => {
            if a.is_empty() { return Some(Out::usage("args")); }
            let Some(buf) = ctx.load(&a[0]) else { return Some(Out::usage("input")) };
            match physis::shpk::ShaderPackage::from_existing(&buf) {
                Some(s) => {
                    ctx.done();
                    let d = format!("{:?}", s);
                    let hd = ctx.put(Obj::Shpk(s));
                    Out::ok(obj! {"handle" => hd, "debug" => d})
                }
                None => Out::none(),
            }
        }
        "shpk.find_node" => {
            if a.len() < 2 { return Some(Out::usage("args")); }
            let s = match h(&a[0]).and_then(|k| ctx.handles.get(&k)) { Some(Obj::Shpk(x)) => x, _ => return Some(Out::usage("handle")) };
            let sel: u32 = a[1].parse().unwrap_or(0);
            match s.find_node(sel) {
                Some(n) => {
                    // identify the node by its position in the pub nodes list
                    let pos = s.nodes.iter().position(|x| std::ptr::eq(x, n));
                    Out::ok(obj! {"selector" => n.selector, "pos" => pos.map(|x| x as i64)})
                }
                None => Out::none(),
            }
        }
        "shpk.selector" => {
            // shpk.selector <k,k,..> [<k,..> <k,..> <k,..>]  (one list: build_selector; four lists: from_all_keys)
            let lists: Vec<Vec<u32>> = a.iter().map(|l| if l == "-" { vec![] } else { l.split(',').filter_map(|x| x.parse().ok()).collect() }).collect();
            use physis::shpk::ShaderPackage as S;
            if lists.len() == 1 {
                Out::ok(J::from(S::build_selector(&lists[0])))
            } else if lists.len() == 4 {
                Out::ok(obj! {
                    "all" => S::build_selector_from_all_keys(&lists[0], &lists[1], &lists[2], &lists[3]),
                    "parts" => J::Arr(lists.iter().map(|l| J::from(S::build_selector(l))).collect()),
                    "from_keys" => S::build_selector_from_keys(S::build_selector(&lists[0]), S::build_selector(&lists[1]), S::build_selector(&lists[2]), S::build_selector(&lists[3])),
                })
            } else {
                Out::usage("lists")
            }
        }
        "sklb.parse" => {
            if a.is_empty() { return Some(Out::usage("args")); }
            let Some(buf) = ctx.load(&a[0]) else { return Some(Out::usage("input")) };
            match physis::skeleton::Skeleton::from_existing(&buf) {
                Some(s) => {
                    ctx.done();
                    Out::ok(J::Arr(s.bones.iter().map(|b| obj!{"name" => b.name.as_str(), "parent" => b.parent_index, "pos" => f3(&b.position), "rot" => f3(&b.rotation), "scale" => f3(&b.scale)}).collect()))
                }
                None => Out::none(),
            }
        }
        "pbd.parse" => {
            if a.is_empty() { return Some(Out::usage("args")); }
            let Some(buf) = ctx.load(&a[0]) else { return Some(Out::usage("input")) };
            match physis::pbd::PreBoneDeformer::from_existing(&buf) {
                Some(p) => {
                    ctx.done();
                    let hd = ctx.put(Obj::Pbd(p));
                    Out::ok(obj! {"handle" => hd})
                }
                None => Out::none(),
            }
        }
        "pbd.deform" => {
            if a.len() < 3 { return Some(Out::usage("args")); }
            let p = match h(&a[0]).and_then(|k| ctx.handles.get(&k)) { Some(Obj::Pbd(x)) => x, _ => return Some(Out::usage("handle")) };
            let r = p.get_deform_matrices(a[1].parse().unwrap_or(0), a[2].parse().unwrap_or(0));
            ctx.done();
            match r {
                Some(m) => Out::ok(J::Arr(m.bones.iter().map(|b| obj!{"name" => b.name.as_str(), "m" => f3(&b.deform)}).collect())),
                None => Out::none(),
            }
        }
        "cmp.parse" => {
            if a.is_empty() { return Some(Out::usage("args")); }
            let Some(buf) = ctx.load(&a[0]) else { return Some(Out::usage("input")) };
            match physis::cmp::CMP::from_existing(&buf) {
                Some(c) => {
                    ctx.done();
                    Out::ok(J::Arr(c.parameters.iter().map(|p| f3(&[p.male_min_size, p.male_max_size, p.male_min_tail, p.male_max_tail, p.female_min_size, p.female_max_size, p.female_min_tail, p.female_max_tail, p.bust_min_x, p.bust_min_y, p.bust_min_z, p.bust_max_x, p.bust_max_y, p.bust_max_z])).collect()))
                }
                None => Out::none(),
            }
        }
        "tera.parse" => {
            // tera.parse <file> [<rewrite-out>]
            if a.is_empty() { return Some(Out::usage("args")); }
            let Some(buf) = ctx.load(&a[0]) else { return Some(Out::usage("input")) };
            match physis::tera::Terrain::from_existing(&buf) {
                Some(t) => {
                    ctx.done();
                    let re = t.write_to_buffer();
                    if let (Some(o), Some(b)) = (a.get(1), re.as_ref()) {
                        let _ = std::fs::write(o, b);
                    }
                    Out::ok(obj! {"plates" => J::Arr(t.plates.iter().map(|p| obj!{"x" => p.position.0, "y" => p.position.1, "filename" => p.filename.as_str()}).collect()),
                        "rewrite_eq" => re.map(|b| b == *buf)})
                }
                None => Out::none(),
            }
        }
        "tera.write" => {
            // tera.write <spec: "xbits ybits hexfilename" per line> <out>
            if a.len() < 2 { return Some(Out::usage("args")); }
            let Some(buf) = ctx.load(&a[0]) else { return Some(Out::usage("input")) };
            let mut plates = vec![];
            for l in String::from_utf8_lossy(&buf).lines() {
                let p: Vec<&str> = l.split(' ').collect();
                if p.len() < 3 { continue; }
                plates.push(physis::tera::PlateModel {
                    position: (f32::from_bits(p[0].parse().unwrap_or(0)), f32::from_bits(p[1].parse().unwrap_or(0))),
                    filename: unhex_s(p[2]),
                });
            }
            let t = physis::tera::Terrain { plates };
            let r = t.write_to_buffer();
            ctx.done();
            crate::verbs::bytes_out(r, &a[1])
        }
        "lgb.parse" => {
            if a.is_empty() { return Some(Out::usage("args")); }
            let Some(buf) = ctx.load(&a[0]) else { return Some(Out::usage("input")) };
            match physis::layer::LayerGroup::from_existing(&buf) {
                Some(l) => {
                    ctx.done();
                    Out::ok(obj! {"file_id" => l.file_id, "chunks" => J::Arr(l.chunks.iter().map(|c| obj!{"chunk_id" => c.chunk_id, "layer_group_id" => c.layer_group_id, "name" => c.name.as_str(), "layers" => c.layers.len(),
                        "objects" => c.layers.iter().map(|x| x.objects.len()).sum::<usize>()}).collect())})
                }
                None => Out::none(),
            }
        }
        "lgb.write" => {
            // lgb.write <file_id> <chunk_id> <layer_group_id> <hexname> <out>
            if a.len() < 5 { return Some(Out::usage("args")); }
            let l = physis::layer::LayerGroup {
                file_id: a[0].parse().unwrap_or(0),
                chunks: vec![physis::layer::LayerChunk { chunk_id: a[1].parse().unwrap_or(0), layer_group_id: a[2].parse().unwrap_or(0), name: unhex_s(&a[3]), layers: vec![] }],
            };
            let r = l.write_to_buffer();
            ctx.done();
            crate::verbs::bytes_out(r, &a[4])
        }
        "stm.parse" | "dic.parse" | "avfx.parse" | "sqdb.parse" | "hdr.parse" => {
            if a.is_empty() { return Some(Out::usage("args")); }
            let (kind, file) = if verb == "hdr.parse" {
                if a.len() < 2 { return Some(Out::usage("args")); }
                (a[0].as_str(), &a[1])
            } else {
                (verb.split('.').next().unwrap(), &a[0])
            };
            let Some(buf) = ctx.load(file) else { return Some(Out::usage("input")) };
            let b: &[u8] = &buf;
            match kind {
                "stm" => dbg_out(ctx, physis::stm::StainingTemplate::from_existing(b)),
                "dic" => match physis::dic::Dictionary::from_existing(b) {
                    Some(d) => { ctx.done(); Out::ok(J::from(d.words)) }
                    None => Out::none(),
                },
                "avfx" => dbg_out(ctx, physis::avfx::Avfx::from_existing(b)),
                "sqdb" => dbg_out(ctx, physis::sqpack::SqPackDatabase::from_existing(b)),
                "uld" => dbg_out(ctx, physis::uld::Uld::from_existing(b)),
                "sgb" => dbg_out(ctx, physis::sgb::Sgb::from_existing(b)),
                "scd" => dbg_out(ctx, physis::scd::Scd::from_existing(b)),
                "hwc" => match physis::hwc::Hwc::from_existing(b) { Some(x) => { ctx.done(); Out::ok(J::from(x.rgba.len())) } None => Out::none() },
                "iwc" => dbg_out(ctx, physis::iwc::Iwc::from_existing(b)),
                "tmb" => dbg_out(ctx, physis::tmb::Tmb::from_existing(b)),
                "skp" => dbg_out(ctx, physis::skp::Skp::from_existing(b)),
                "schd" => dbg_out(ctx, physis::schd::Schd::from_existing(b)),
                "phyb" => dbg_out(ctx, physis::phyb::Phyb::from_existing(b)),
                "pap" => dbg_out(ctx, physis::pap::Pap::from_existing(b)),
                _ => Out::usage("kind"),
            }
        }
        _ => return None,
    })
}

macro_rules! handle_ref {
    ($ctx:expr, $a:expr, $variant:ident) => {
        match h($a).and_then(|k| $ctx.handles.get(&k)) {
            Some(Obj::$variant(x)) => x,
            _ => return Some(Out::usage("bad handle")),
        }
    };
}
use handle_ref;
#[allow(unused_imports)]
use {handle as _h, need as _n};
