//! Monitors living inside the worker process: counting allocator, panic hook, CPU clock.
use std::alloc::{GlobalAlloc, Layout, System};
use std::sync::atomic::{AtomicBool, AtomicIsize, AtomicUsize, Ordering::Relaxed};
use std::sync::Mutex;

pub struct Counting;

static IN_MON: AtomicBool = AtomicBool::new(false);
pub static LIVE: AtomicIsize = AtomicIsize::new(0);
pub static PEAK: AtomicIsize = AtomicIsize::new(0);
pub static MAXREQ: AtomicUsize = AtomicUsize::new(0);
pub static NALLOC: AtomicUsize = AtomicUsize::new(0);
/// requests above this many bytes are reported (once per command) before being attempted
pub static LIMIT: AtomicUsize = AtomicUsize::new(usize::MAX);
static OVERSIZE_DONE: AtomicBool = AtomicBool::new(false);
pub static SEQ: AtomicUsize = AtomicUsize::new(0);
/// case index inside a fault batch (-1 outside of batches)
pub static CASE: AtomicIsize = AtomicIsize::new(-1);

/// Scope guard: allocations made while it is alive are not counted. Whatever is allocated
/// under a guard must also be freed under a guard.
pub struct Excl(bool);
impl Excl {
    pub fn new() -> Excl {
        Excl(IN_MON.swap(true, Relaxed))
    }
}
impl Drop for Excl {
    fn drop(&mut self) {
        IN_MON.store(self.0, Relaxed);
    }
}
/// Scope guard: the opposite of `Excl` — re-enables counting inside an excluded region.
pub struct Counted(bool);
impl Counted {
    pub fn new() -> Counted {
        Counted(IN_MON.swap(false, Relaxed))
    }
}
impl Drop for Counted {
    fn drop(&mut self) {
        IN_MON.store(self.0, Relaxed);
    }
}
pub fn excl<T>(f: impl FnOnce() -> T) -> T {
    let _g = Excl::new();
    f()
}

#[inline]
fn note_request(size: usize) {
    if IN_MON.load(Relaxed) {
        return;
    }
    NALLOC.fetch_add(1, Relaxed);
    if size > MAXREQ.load(Relaxed) {
        MAXREQ.store(size, Relaxed);
    }
    if size > LIMIT.load(Relaxed) && !OVERSIZE_DONE.swap(true, Relaxed) {
        report_oversize(size);
    }
}

#[cold]
fn report_oversize(size: usize) {
    let _g = Excl::new();
    let frames = crate_frames(&std::backtrace::Backtrace::force_capture());
    let mut s = format!(
        "{{\"seq\":{},\"ev\":\"oversize\",\"case\":{},\"bytes\":{},\"frames\":[",
        SEQ.load(Relaxed),
        CASE.load(Relaxed),
        size
    );
    for (i, (f, l, sym)) in frames.iter().take(6).enumerate() {
        if i > 0 {
            s.push(',');
        }
        s.push_str(&format!(
            "{{\"file\":{},\"line\":{},\"sym\":{}}}",
            crate::json::quote(f),
            l,
            crate::json::quote(sym)
        ));
    }
    s.push_str("]}\n");
    raw_write(s.as_bytes());
}

pub fn raw_write(mut b: &[u8]) {
    while !b.is_empty() {
        let n = unsafe { libc::write(1, b.as_ptr() as *const libc::c_void, b.len()) };
        if n <= 0 {
            break;
        }
        b = &b[n as usize..];
    }
}

#[inline]
fn add_live(d: isize) {
    if IN_MON.load(Relaxed) {
        return;
    }
    let v = LIVE.fetch_add(d, Relaxed) + d;
    if v > PEAK.load(Relaxed) {
        PEAK.store(v, Relaxed);
    }
}

unsafe impl GlobalAlloc for Counting {
    unsafe fn alloc(&self, l: Layout) -> *mut u8 {
        note_request(l.size());
        let p = System.alloc(l);
        if !p.is_null() {
            add_live(l.size() as isize);
        }
        p
    }
    unsafe fn alloc_zeroed(&self, l: Layout) -> *mut u8 {
        note_request(l.size());
        let p = System.alloc_zeroed(l);
        if !p.is_null() {
            add_live(l.size() as isize);
        }
        p
    }
    unsafe fn dealloc(&self, p: *mut u8, l: Layout) {
        System.dealloc(p, l);
        add_live(-(l.size() as isize));
    }
    unsafe fn realloc(&self, p: *mut u8, l: Layout, new: usize) -> *mut u8 {
        note_request(new);
        let q = System.realloc(p, l, new);
        if !q.is_null() {
            add_live(new as isize - l.size() as isize);
        }
        q
    }
}

pub fn begin_command(seq: usize, limit: usize) {
    SEQ.store(seq, Relaxed);
    CASE.store(-1, Relaxed);
    LIMIT.store(limit, Relaxed);
    OVERSIZE_DONE.store(false, Relaxed);
    MAXREQ.store(0, Relaxed);
    NALLOC.store(0, Relaxed);
    PEAK.store(LIVE.load(Relaxed), Relaxed);
}

/// per-case reset inside a fault batch (keeps the command's sequence number)
pub fn begin_case(case: usize, limit: usize) {
    CASE.store(case as isize, Relaxed);
    LIMIT.store(limit, Relaxed);
    OVERSIZE_DONE.store(false, Relaxed);
    MAXREQ.store(0, Relaxed);
    PEAK.store(LIVE.load(Relaxed), Relaxed);
}

/// bytes handed out by the C allocator (sees allocations that bypass the Rust global allocator,
/// e.g. zlib-rs' own use of `System`); 0 where not available
pub fn malloc_in_use() -> usize {
    #[cfg(any(miri, verif_asan))]
    {
        0
    }
    #[cfg(not(any(miri, verif_asan)))]
    {
        let m = unsafe { libc::mallinfo2() };
        m.uordblks + m.hblkhd
    }
}

/// coverage builds only (development aid): write the counters out now, so that a process that later dies on a
/// known finding does not take the coverage of everything it ran before with it
pub fn flush_coverage() {
    #[cfg(verif_cov)]
    {
        extern "C" {
            fn __llvm_profile_write_file() -> i32;
            fn __llvm_profile_reset_counters();
        }
        let _g = Excl::new();
        unsafe {
            // the file name carries %m (merge mode): each write adds the in-memory counters to the file, so they are reset after it
            __llvm_profile_write_file();
            __llvm_profile_reset_counters();
        }
    }
}

pub fn cpu_us() -> u64 {
    #[cfg(miri)]
    {
        0
    }
    #[cfg(not(miri))]
    {
        let mut ts = libc::timespec { tv_sec: 0, tv_nsec: 0 };
        unsafe { libc::clock_gettime(libc::CLOCK_THREAD_CPUTIME_ID, &mut ts) };
        ts.tv_sec as u64 * 1_000_000 + ts.tv_nsec as u64 / 1000
    }
}

// ---------------------------------------------------------------------------------------------

#[derive(Clone, Debug)]
pub struct PanicRec {
    pub file: String,
    pub line: u32,
    pub col: u32,
    pub msg: String,
    pub frames: Vec<(String, u32, String)>,
}

pub static LAST_PANIC: Mutex<Option<PanicRec>> = Mutex::new(None);

fn repo_dir() -> String {
    std::env::var("VERIF_REPO_DIR").unwrap_or_else(|_| "/repo".to_string())
}

/// (file, line, symbol) of backtrace frames whose source lies in the repository under test
pub fn crate_frames(bt: &std::backtrace::Backtrace) -> Vec<(String, u32, String)> {
    let text = format!("{}", bt);
    let repo = format!("{}/src/", repo_dir());
    let mut out = vec![];
    let mut sym = String::new();
    for line in text.lines() {
        let t = line.trim_start();
        if let Some(rest) = t.strip_prefix("at ") {
            if let Some(pos) = rest.find(&repo) {
                let loc = &rest[pos + repo.len() - 4..]; // keep "src/..."
                let mut it = loc.split(':');
                let f = it.next().unwrap_or("").to_string();
                let l: u32 = it.next().and_then(|x| x.parse().ok()).unwrap_or(0);
                out.push((f, l, sym.clone()));
            }
        } else if let Some(pos) = t.find(": ") {
            sym = t[pos + 2..].to_string();
        }
    }
    out
}

pub fn install_panic_hook() {
    let always_bt = std::env::var("VERIF_BT").is_ok();
    std::panic::set_hook(Box::new(move |info| {
        let _g = Excl::new();
        let (file, line, col) = match info.location() {
            Some(l) => (l.file().to_string(), l.line(), l.column()),
            None => ("?".to_string(), 0, 0),
        };
        let msg = if let Some(s) = info.payload().downcast_ref::<&str>() {
            s.to_string()
        } else if let Some(s) = info.payload().downcast_ref::<String>() {
            s.clone()
        } else {
            "<non-string payload>".to_string()
        };
        let repo = repo_dir();
        let in_repo = file.starts_with(&format!("{}/src/", repo)) || file.starts_with("src/");
        let frames = if !in_repo || always_bt {
            crate_frames(&std::backtrace::Backtrace::force_capture())
        } else {
            vec![]
        };
        let file = match file.strip_prefix(&format!("{}/", repo)) {
            Some(f) => f.to_string(),
            None => file,
        };
        *LAST_PANIC.lock().unwrap() = Some(PanicRec { file, line, col, msg, frames });
    }));
}
