//! Minimal JSON value + serializer (no dependencies).
#[derive(Clone, Debug)]
pub enum J {
    Null,
    Bool(bool),
    Int(i128),
    Str(String),
    /// pre-serialised JSON text
    Raw(String),
    Arr(Vec<J>),
    Obj(Vec<(String, J)>),
}

pub fn quote(s: &str) -> String {
    let mut o = String::with_capacity(s.len() + 2);
    o.push('"');
    for c in s.chars() {
        match c {
            '"' => o.push_str("\\\""),
            '\\' => o.push_str("\\\\"),
            '\n' => o.push_str("\\n"),
            '\r' => o.push_str("\\r"),
            '\t' => o.push_str("\\t"),
            c if (c as u32) < 0x20 => o.push_str(&format!("\\u{:04x}", c as u32)),
            c => o.push(c),
        }
    }
    o.push('"');
    o
}

impl J {
    pub fn write(&self, o: &mut String) {
        match self {
            J::Null => o.push_str("null"),
            J::Bool(b) => o.push_str(if *b { "true" } else { "false" }),
            J::Int(i) => o.push_str(&i.to_string()),
            J::Str(s) => o.push_str(&quote(s)),
            J::Raw(s) => o.push_str(s),
            J::Arr(a) => {
                o.push('[');
                for (i, x) in a.iter().enumerate() {
                    if i > 0 {
                        o.push(',');
                    }
                    x.write(o);
                }
                o.push(']');
            }
            J::Obj(a) => {
                o.push('{');
                for (i, (k, x)) in a.iter().enumerate() {
                    if i > 0 {
                        o.push(',');
                    }
                    o.push_str(&quote(k));
                    o.push(':');
                    x.write(o);
                }
                o.push('}');
            }
        }
    }
    pub fn to_string(&self) -> String {
        let mut s = String::new();
        self.write(&mut s);
        s
    }
}

pub fn hex(b: &[u8]) -> String {
    const H: &[u8; 16] = b"0123456789abcdef";
    let mut s = String::with_capacity(b.len() * 2);
    for x in b {
        s.push(H[(x >> 4) as usize] as char);
        s.push(H[(x & 15) as usize] as char);
    }
    s
}

pub fn unhex(h: &str) -> Vec<u8> {
    let b = h.as_bytes();
    let v = |c: u8| -> u8 {
        match c {
            b'0'..=b'9' => c - b'0',
            b'a'..=b'f' => c - b'a' + 10,
            b'A'..=b'F' => c - b'A' + 10,
            _ => 0,
        }
    };
    b.chunks(2).filter(|c| c.len() == 2).map(|c| (v(c[0]) << 4) | v(c[1])).collect()
}

#[macro_export]
macro_rules! obj {
    ($($k:expr => $v:expr),* $(,)?) => {
        $crate::json::J::Obj(vec![$(($k.to_string(), $crate::json::J::from($v))),*])
    };
}

impl From<bool> for J { fn from(v: bool) -> J { J::Bool(v) } }
impl From<&str> for J { fn from(v: &str) -> J { J::Str(v.to_string()) } }
impl From<String> for J { fn from(v: String) -> J { J::Str(v) } }
impl From<&String> for J { fn from(v: &String) -> J { J::Str(v.clone()) } }
macro_rules! ji { ($($t:ty),*) => { $(impl From<$t> for J { fn from(v: $t) -> J { J::Int(v as i128) } })* } }
ji!(u8, i8, u16, i16, u32, i32, u64, i64, usize, isize);
impl From<f32> for J { fn from(v: f32) -> J { J::Int(v.to_bits() as i128) } }
impl<T: Into<J>> From<Vec<T>> for J { fn from(v: Vec<T>) -> J { J::Arr(v.into_iter().map(|x| x.into()).collect()) } }
impl<T: Into<J>> From<Option<T>> for J { fn from(v: Option<T>) -> J { match v { Some(x) => x.into(), None => J::Null } } }
impl<T: Into<J> + Copy, const N: usize> From<[T; N]> for J { fn from(v: [T; N]) -> J { J::Arr(v.iter().map(|x| (*x).into()).collect()) } }
