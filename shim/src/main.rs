//! verif-shim: persistent worker that executes one public-API observation of the real `physis`
//! crate per command line and reports call/return records (JSONL on stdout).
//!
//! Line protocol (stdin):  `<seq> <limit_bytes> <verb> <arg>...`   (args: plain tokens or `h:<hex>`)
//! Records (stdout):       {"seq","ev":"call",...}  then  {"seq","ev":"ret","outcome",...,"mon":{...}}
mod json;
mod mon;
mod verbs;
mod verbs_assets;
mod verbs_fault;
mod verbs_mt;
mod verbs_mdl;

use json::J;
use std::io::BufRead;
use std::panic::{catch_unwind, AssertUnwindSafe};
use std::sync::atomic::Ordering::Relaxed;

#[global_allocator]
static GLOBAL: mon::Counting = mon::Counting;

pub struct Out {
    pub outcome: String,
    pub value: J,
}
impl Out {
    pub fn ok(v: J) -> Out {
        Out { outcome: "ok".into(), value: v }
    }
    pub fn none() -> Out {
        Out { outcome: "none".into(), value: J::Null }
    }
    pub fn err(kind: &str) -> Out {
        Out { outcome: format!("err:{}", kind), value: J::Null }
    }
    pub fn usage(msg: &str) -> Out {
        Out { outcome: "usage".into(), value: J::Str(msg.to_string()) }
    }
}

fn decode_arg(a: &str) -> String {
    if let Some(h) = a.strip_prefix("h:") {
        String::from_utf8_lossy(&json::unhex(h)).into_owned()
    } else {
        a.to_string()
    }
}

fn emit(s: &str) {
    mon::raw_write(s.as_bytes());
}

fn run_line(ctx: &mut verbs::Ctx, line: &str) -> bool {
    // everything in here that is not the verb itself is excluded from accounting; the guard is
    // the first local so that it is dropped last
    let _outer = mon::Excl::new();
    let mut it = line.split(' ').filter(|x| !x.is_empty());
    let seq: usize = match it.next().and_then(|x| x.parse().ok()) {
        Some(s) => s,
        None => return true,
    };
    let limit: usize = it.next().and_then(|x| x.parse().ok()).unwrap_or(usize::MAX);
    let mut verb = it.next().unwrap_or("").to_string();
    // `verb@k`: hand the library its input buffers k bytes off their allocation's alignment
    ctx.skew = 0;
    if let Some(p) = verb.rfind('@') {
        ctx.skew = verb[p + 1..].parse().unwrap_or(0);
        verb.truncate(p);
    }
    let args: Vec<String> = it.map(decode_arg).collect();
    if verb == "quit" {
        return false;
    }
    emit(&format!("{{\"seq\":{},\"ev\":\"call\",\"verb\":{}}}\n", seq, json::quote(&verb)));
    *mon::LAST_PANIC.lock().unwrap() = None;
    mon::begin_command(seq, limit);
    let live_before = mon::LIVE.load(Relaxed);
    let malloc_before = mon::malloc_in_use();
    let cpu0 = mon::cpu_us();
    // verbs run entirely in counted mode
    let r = {
        let _c = mon::Counted::new();
        catch_unwind(AssertUnwindSafe(|| verbs::dispatch(ctx, &verb, &args)))
    };
    let cpu1 = mon::cpu_us();
    // copy the result out (excluded), then drop the original in counted mode: residual is exact
    let (outcome, value) = match r {
        Ok(o) => {
            let c = (o.outcome.clone(), o.value.to_string());
            let _c = mon::Counted::new();
            drop(o);
            c
        }
        Err(p) => {
            let c = ("panic".to_string(), "null".to_string());
            let _c = mon::Counted::new();
            drop(p);
            c
        }
    };
    ctx.clear_inputs();
    let live_after = mon::LIVE.load(Relaxed);
    // C-allocator view of the same interval; the copied-out result is still alive, so discount it
    let malloc_delta = mon::malloc_in_use() as i64 - malloc_before as i64 - (outcome.capacity() + value.capacity()) as i64;
    let peak = ctx.api_peak.take().unwrap_or(mon::PEAK.load(Relaxed));
    let max_req = ctx.api_maxreq.take().unwrap_or(mon::MAXREQ.load(Relaxed));
    let mut rec = vec![
        ("seq".to_string(), J::from(seq)),
        ("ev".to_string(), J::from("ret")),
        ("verb".to_string(), J::from(verb.as_str())),
        ("skew".to_string(), J::from(ctx.skew)),
        ("outcome".to_string(), J::from(outcome.as_str())),
        ("value".to_string(), J::Raw(value)),
        (
            "mon".to_string(),
            obj! {
                "cpu_us" => cpu1 - cpu0,
                "live_before" => live_before as i64,
                "live_after" => live_after as i64,
                "peak" => (peak - live_before) as i64,
                "max_req" => max_req,
                "nalloc" => mon::NALLOC.load(Relaxed),
                "malloc_delta" => malloc_delta,
            },
        ),
    ];
    if let Some(p) = mon::LAST_PANIC.lock().unwrap().take() {
        let frames: Vec<J> = p
            .frames
            .iter()
            .take(8)
            .map(|(f, l, s)| obj! {"file" => f.as_str(), "line" => *l, "sym" => s.as_str()})
            .collect();
        rec.push((
            "panic".to_string(),
            obj! {"file" => p.file, "line" => p.line, "col" => p.col, "msg" => p.msg, "frames" => J::Arr(frames)},
        ));
    }
    let mut s = J::Obj(rec).to_string();
    s.push('\n');
    emit(&s);
    mon::flush_coverage();
    true
}

fn main() {
    mon::install_panic_hook();
    // warm the backtrace machinery (symbol cache) outside of any measured region
    {
        let _g = mon::Excl::new();
        if std::env::var("VERIF_TOUCH").is_ok() {
            verbs_fault::TOUCH.store(true, std::sync::atomic::Ordering::Relaxed);
        }
        if std::env::var("VERIF_NO_WARM").is_err() {
            let _ = format!("{}", std::backtrace::Backtrace::force_capture());
        }
    }
    let argv: Vec<String> = std::env::args().collect();
    let mut ctx = verbs::Ctx::new();
    if argv.len() > 2 && argv[1] == "--once" {
        let line = format!("1 {} {}", usize::MAX, argv[2..].join(" "));
        run_line(&mut ctx, &line);
        return;
    }
    if argv.len() > 2 && argv[1] == "--script" {
        // commands from a file, one per line (used for interpreter runs, where a pipe protocol is not worth its cost)
        let text = {
            let _g = mon::Excl::new();
            std::fs::read_to_string(&argv[2]).unwrap_or_default()
        };
        for l in text.lines() {
            if !run_line(&mut ctx, l) {
                break;
            }
        }
        {
            // drop every handle so that an interpreter's leak check sees only what the library failed to release
            let _g = mon::Excl::new();
            ctx.handles.clear();
        }
        return;
    }
    emit("{\"ev\":\"ready\"}\n");
    let stdin = std::io::stdin();
    let mut line = String::new();
    loop {
        let n = {
            let _g = mon::Excl::new();
            line.clear();
            stdin.lock().read_line(&mut line).unwrap_or(0)
        };
        if n == 0 {
            break;
        }
        let l = {
            let _g = mon::Excl::new();
            line.trim_end_matches(['\n', '\r']).to_string()
        };
        let cont = run_line(&mut ctx, &l);
        {
            let _g = mon::Excl::new();
            drop(l);
        }
        if !cont {
            break;
        }
    }
}
