#!/usr/bin/env python3
"""Confirm a seeded change and run the checks against it.

  tools/mutant_eval.py <PROP> <mutant-out-dir> <seeded-id> [--checks C01,C02] [--tier quick|thorough] [--skip-confirm]

1. confirmation in the scratch worktree /tmp/mut/<PROP> (never in /repo): demo fails with the patch,
   passes without it, the repository's stable tests pass with it;
2. detection: patch applied to /repo (git apply), checks run, patch undone (git checkout -- .);
3. result written to /verif/seeded/<seeded-id>/ (patch.diff, demo, meta.json).
"""
import argparse, json, os, re, shutil, subprocess, sys, time

ENV = dict(os.environ, CARGO_NET_OFFLINE="true", VERIF_NO_EVIDENCE="1")
BASE = json.load(open("/root/.vp/BASELINE.json"))
STABLE = set(BASE["stable_pass"])


def sh(cmd, cwd=None, timeout=3600):
    p = subprocess.run(cmd, cwd=cwd, shell=isinstance(cmd, str), env=ENV, stdout=subprocess.PIPE, stderr=subprocess.STDOUT, text=True, timeout=timeout)
    return p.returncode, p.stdout


def stable_ok(out):
    ran = set("physis::" + m.group(1) for m in re.finditer(r"test (\S+::\S+) \.\.\.", out))
    failed = set()
    for blk in re.finditer(r"\nfailures:\n((?:    \S+\n)+)", out):
        for l in blk.group(1).split("\n"):
            if l.strip():
                failed.add("physis::" + l.strip())
    bad = sorted(t for t in STABLE if t not in ran or t in failed)
    return not bad, bad


def main():
    ap = argparse.ArgumentParser()
    ap.add_argument("prop"); ap.add_argument("mdir"); ap.add_argument("sid")
    ap.add_argument("--checks"); ap.add_argument("--tier", default="quick"); ap.add_argument("--skip-confirm", action="store_true")
    ap.add_argument("--worktree")
    ap.add_argument("--eval-repo", help="run the detection in this scratch worktree of /repo (VERIF_REPO_DIR) instead of /repo itself; /repo stays untouched")
    a = ap.parse_args()
    wt = a.worktree or "/tmp/mut/%s" % a.prop
    meta = json.load(open(os.path.join(a.mdir, "meta.json")))
    patch = os.path.abspath(os.path.join(a.mdir, "patch.diff"))
    demo = os.path.join(a.mdir, "demo.rs")
    demo_path = meta.get("demo_path", "tests/mutant_demo.rs")
    result = dict(meta)
    result["evaluated_at"] = time.strftime("%Y-%m-%dT%H:%M:%SZ", time.gmtime())
    if not a.skip_confirm:
        sh("git checkout -- . ; rm -f %s" % demo_path, cwd=wt)
        rc, out = sh("git apply --check %s" % patch, cwd=wt)
        if rc != 0:
            print("patch does not apply in worktree:", out[-500:]); result["confirmed"] = False; result["confirm_note"] = "patch does not apply"
        else:
            sh("git apply %s" % patch, cwd=wt)
            os.makedirs(os.path.dirname(os.path.join(wt, demo_path)), exist_ok=True)
            shutil.copyfile(demo, os.path.join(wt, demo_path))
            test_name = os.path.splitext(os.path.basename(demo_path))[0]
            rel = " --release" if "--release" in str(meta.get("demo_cmd", "")) else ""
            test_name = test_name + rel
            rc1, out1 = sh("cargo test --offline --test %s 2>&1 | tail -40" % test_name, cwd=wt)
            fails_with = "test result: FAILED" in out1 or "panicked" in out1 or "error: test failed" in out1
            os.unlink(os.path.join(wt, demo_path))
            rc2, out2 = sh("cargo test --offline --workspace --no-fail-fast 2>&1", cwd=wt)
            ok_tests, bad = stable_ok(out2)
            sh("git checkout -- .", cwd=wt)
            shutil.copyfile(demo, os.path.join(wt, demo_path))
            rc3, out3 = sh("cargo test --offline --test %s 2>&1 | tail -40" % test_name, cwd=wt)
            passes_without = "test result: ok" in out3 and "FAILED" not in out3
            os.unlink(os.path.join(wt, demo_path))
            result["confirmed_by_me"] = dict(fails_with_change=fails_with, passes_without=passes_without, stable_tests_pass_with_change=ok_tests, failing_stable=bad[:5])
            result["confirmed"] = bool(fails_with and passes_without and ok_tests)
            print("confirm: fails_with=%s passes_without=%s stable_ok=%s %s" % (fails_with, passes_without, ok_tests, bad[:3]))
    # detection against /repo (or, with --eval-repo, a scratch worktree of it at the same commit)
    target = a.eval_repo or "/repo"
    if a.eval_repo:
        ENV["VERIF_REPO_DIR"] = a.eval_repo
        ENV["VERIF_BUILD_DIR"] = a.eval_repo.rstrip("/") + "-build"
        sh("git checkout -q --detach %s" % sh("git rev-parse HEAD", cwd="/repo")[1].strip(), cwd=target)
    rc, out = sh("git status --porcelain", cwd=target)
    if out.strip():
        print("%s is not clean, refusing" % target); sys.exit(2)
    rc, out = sh("git apply --check %s" % patch, cwd=target)
    if rc != 0:
        print("patch does not apply to %s:" % target, out[-400:]); result["detection"] = "patch does not apply to /repo"
    else:
        checks = (a.checks or a.prop).split(",")
        det = {}
        try:
            sh("git apply %s" % patch, cwd=target)
            for c in checks:
                t0 = time.time()
                rc, out = sh("./check %s --tier %s" % (c, a.tier), cwd="/verif")
                sigs = sorted(set(re.findall(r"signature: (\{.*\})", out)))
                det[c] = dict(exit=rc, detected=(rc == 1 and "VIOLATION property=" in out), wall_s=round(time.time() - t0, 1), signatures=[s[:300] for s in sigs[:6]], summary=(re.findall(r"^\[%s\] tier.*$" % c, out, re.M) or [""])[-1])
                print("check %s tier=%s -> exit %d detected=%s (%.0fs) %s" % (c, a.tier, rc, det[c]["detected"], time.time() - t0, "; ".join(s[:140] for s in sigs[:2])))
        finally:
            sh("git checkout -- .", cwd=target)
        result.setdefault("detection", {})
        result["detection"] = det
        result["detected"] = any(d["detected"] for d in det.values())
        result["tier"] = a.tier
    sd = os.path.join("/verif/seeded", a.sid)
    os.makedirs(sd, exist_ok=True)
    shutil.copyfile(patch, os.path.join(sd, "patch.diff"))
    shutil.copyfile(demo, os.path.join(sd, "demo.rs"))
    # keep earlier detection results of other tiers
    old = {}
    if os.path.exists(os.path.join(sd, "meta.json")):
        old = json.load(open(os.path.join(sd, "meta.json")))
    if isinstance(old.get("runs"), list):
        result["runs"] = old["runs"]
    result.setdefault("runs", []).append(dict(tier=a.tier, detection=result.get("detection"), at=result["evaluated_at"]))
    if a.skip_confirm and "confirmed" in old:
        result["confirmed"] = old["confirmed"]; result["confirmed_by_me"] = old.get("confirmed_by_me")
    result["breaks_property"] = a.prop
    result["what_i_ran"] = "tools/mutant_eval.py %s" % " ".join(sys.argv[1:])
    json.dump(result, open(os.path.join(sd, "meta.json"), "w"), indent=1)


if __name__ == "__main__":
    main()
