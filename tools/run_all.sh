#!/bin/sh
# tools/run_all.sh [tier] -> runs every check, prints the summary line of each and the exit code
cd /verif
tier=${1:-quick}
for i in 01 02 03 04 05 06 07 08 09 10 11 12 13 14 15 16 17 18; do
  VERIF_NO_EVIDENCE=${VERIF_NO_EVIDENCE:-} ./check C$i --tier $tier > /tmp/run_C$i.out 2>&1; rc=$?
  echo "rc=$rc $(grep -E "^\[C$i\] tier" /tmp/run_C$i.out | tail -1)"
  if [ $rc -ne 0 ]; then grep -E "VIOLATION|signature|harness" /tmp/run_C$i.out | head -6; fi
done
