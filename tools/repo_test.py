#!/usr/bin/env python3
"""Run the repository's suite (hook guard off) and compare with the 77 stable tests of BASELINE.json."""
import json, re, subprocess, sys, os
base = json.load(open("/root/.vp/BASELINE.json"))
stable = set(base["stable_pass"])
env = dict(os.environ, CARGO_NET_OFFLINE="true")
p = subprocess.run(["cargo", "test", "--workspace", "--no-fail-fast", "--offline"], cwd="/repo", env=env, stdout=subprocess.PIPE, stderr=subprocess.STDOUT, text=True)
res = {}
for m in re.finditer(r"test (\S+::\S+) \.\.\. (\w+)", p.stdout):
    res["physis::" + m.group(1)] = m.group(2)
bad = sorted(t for t in stable if res.get(t) != "ok")
print("stable tests passing: %d/%d" % (len(stable) - len(bad), len(stable)))
for t in bad:
    print("  NOT OK:", t, res.get(t))
if "error" in p.stdout and not res:
    print(p.stdout[-3000:])
sys.exit(1 if bad else 0)
