#!/usr/bin/env python3
"""Run the repository's suite (hook guard off) and compare with the 77 stable tests of BASELINE.json."""
import json, re, subprocess, sys, os
base = json.load(open("/root/.vp/BASELINE.json"))
stable = set(base["stable_pass"])
env = dict(os.environ, CARGO_NET_OFFLINE="true")
p = subprocess.run(["cargo", "test", "--workspace", "--no-fail-fast", "--offline"], cwd="/repo", env=env, stdout=subprocess.PIPE, stderr=subprocess.STDOUT, text=True)
ran = set("physis::" + m.group(1) for m in re.finditer(r"test (\S+::\S+) \.\.\.", p.stdout))
failed = set()
for blk in re.finditer(r"\nfailures:\n((?:    \S+\n)+)", p.stdout):
    for l in blk.group(1).split("\n"):
        if l.strip():
            failed.add("physis::" + l.strip())
bad = sorted(t for t in stable if t not in ran or t in failed)
print("stable tests passing: %d/%d (failed overall: %s)" % (len(stable) - len(bad), len(stable), sorted(failed)))
for t in bad:
    print("  NOT OK:", t, "failed" if t in failed else "did not run")
if not ran:
    print(p.stdout[-3000:])
sys.exit(1 if bad else 0)
