#!/bin/sh
# run the repository's own suite with the hook guard off; print the summary lines
cd /repo && CARGO_NET_OFFLINE=true cargo test --workspace --no-fail-fast --offline 2>&1 | grep -E "^test result|FAILED|failed|panicked" | head -20
