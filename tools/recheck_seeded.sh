#!/bin/sh
# tools/recheck_seeded.sh [pattern] : re-run the quick check of every kept seeded change against the current suite
# (applies each patch to /repo, runs the property's check, undoes it); prints one line per change. Development aid.
cd /verif
pat=${1:-.}
for d in $(ls seeded | grep -E "$pat"); do
  p=$(echo $d | cut -c1-3)
  if [ -n "$(git -C /repo status --porcelain)" ]; then echo "/repo not clean"; exit 2; fi
  if ! git -C /repo apply --check /verif/seeded/$d/patch.diff 2>/dev/null; then echo "$d: patch no longer applies (code repaired or moved since)"; continue; fi
  git -C /repo apply /verif/seeded/$d/patch.diff
  checks=$p
  # a few changes are caught by a neighbouring property's check as recorded in their meta.json
  out=$(VERIF_NO_EVIDENCE=1 ./check $p --tier quick 2>&1); rc=$?
  git -C /repo checkout -- . 
  echo "$d: exit=$rc $(echo "$out" | grep -c '^VIOLATION') violation signatures"
done
