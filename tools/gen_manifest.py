#!/usr/bin/env python3
"""Regenerates /verif/MANIFEST.json from the table below (kept valid at all times)."""
import json, os, sys
V = os.path.dirname(os.path.dirname(os.path.abspath(__file__)))

CHECKS = {
 # id: (level, technique, level text, level note)
 "C01": ("exploration", "reference-model monitor over recorded query histories on live GameData handles + order-independence invariant (fresh-handle replay in another order); unique payload per stored location",
         "Each exists/find_offset/extract return on randomly generated installations is compared with an independent index model defined on hashes; every stored location carries a unique id so a wrong dat/offset/chunk is visible; histories are replayed in another order on a fresh handle to expose cache-dependent answers.",
         "SqPack index/dat layout as documented; leniency for repositories that are named but not installed"),
 "C02": ("exploration", "equality monitor against the independent packer's input + residual-heap and allocation monitors; ASan/LSan run of the same workload; Miri (UB + leak interpreter) on a small slice in the thorough tier; valgrind memcheck (uninitialised-value use) on a small slice in both tiers",
         "Entries of all three kinds packed by an independent Python packer (Python zlib streams of every block type, arbitrary splits) are read back through the real library and compared byte for byte / section by section; the allocator monitor checks that nothing stays allocated after each call and ASan+LSan watch the unsafe slice cast and the inflate path.",
         "Python zlib; entry layouts as documented"),
 "C03": ("exploration", "conservation monitor: directory tree after apply == Python interpreter of the reference ZiPatch semantics on the same abstract op list; strace syscall monitor on one-shot applies (thorough)",
         "Abstract op lists are serialised to the reference wire format by an independent builder and interpreted by an independent model; the whole target tree is snapshotted and compared byte for byte after every apply (bounded-exhaustive over short sequences of a 12-op alphabet x 3 platforms, random long sequences, chains of patches, pre-existing trees); the syscall monitor additionally checks that nothing outside the modelled paths is created, truncated or removed.",
         "reference semantics as implemented by XIVLauncher; listed leniencies for directory effects"),
 "C04": ("exploration", "conservation monitor on W = copy(A) after apply(create(A,B)) + immutability monitor on A and B (snapshots; strace in thorough tier)",
         "Random pairs of trees with every overlap class are pushed through create/apply and the resulting tree compared with B on non-empty files; A and B are snapshotted before and after, and strace shows that create opens nothing for writing under them.",
         "empty files / left-over empty directories unconstrained"),
 "C05": ("exploration", "reference-model monitor cell by cell against values planted by an independent EXH/EXD builder; direct buffers and archive route",
         "Every cell of every stored (sub-)row is compared with the planted value for all 19 column types incl. shared packed-bool bytes, NaN payloads, extreme integers, long strings and large sub-row tables; names/pages/languages are resolved through a generated archive as well.",
         "EXH/EXD layout as in Lumina; single-sub-row sheets not generated"),
 "C06": ("exploration", "reference-model monitor: independent MDL builder + typed reference decoders with per-component accept sets",
         "Random models over both format versions, all reader-supported (usage,type) pairs, 1..3 streams, arbitrary offsets/strides and buffer bytes, plus sweeps over all 65536 half patterns and all byte values, are parsed by the real library and every vertex component, index, sub-mesh range, raw stream, name and shape delta is compared with the reference decoding.",
         "MDL layout as documented; listed leniencies where sources disagree on a numeric meaning"),
 "C07": ("exploration", "round-trip identity monitor + codec sweep + structural-invariant monitor on written bytes (independent Python MDL parser) + geometry monitor after edit histories on a live handle",
         "Unedited canonical models must re-read dump-equal with byte-identical vertex/index sections; after every step of random edit histories (replace / remove_shape_meshes / add_shape_mesh) the written bytes are walked by an independent parser (disjoint, in-bounds, correctly sized sections) and re-parsed geometry is compared with the planted canonical streams.",
         "v5 only; unsupported encoders are listed known findings"),
 "C08": ("exploration", "model-equality monitor after every call of parse/write/set_value/has_* histories on live handles",
         "The Python model (list of categories/entries) is compared with the library's observable state after every call of random edit histories, and canonical text is compared byte for byte in both directions; exploration over random grammars incl. empty categories, duplicate keys and multi-byte text.",
         "canonical grammar as stated in the property"),
 "C09": ("exploration", "cross-codec monitor in both directions with an independent by-offset codec anchored on retail-made samples",
         "Files built by an independent Python codec are parsed by the library and files written by the library are decoded by the Python codec, so a symmetric reader/writer mistake is visible; all race/tribe/gender codes, every value of every byte field, comment lengths 0..163 and id classes (incl. ids overlapping the marker bits) are swept.",
         "documented offsets; additive item-id marker"),
 "C10": ("exploration", "cross-codec monitor: independent FileInfo record parser + os.stat + hashlib.sha1; independent patch-list wire parser; Miri on a small slice (SHA-1 block view) in the thorough tier",
         "Every table/list the library writes is decoded independently and every independently built one is parsed by the library; lengths cover every SHA-1 padding boundary, sizes up to 2^62.",
         "hashlib/os.stat trusted; wire format as served by the patch servers"),
 "C11": ("exploration", "reference-model monitor: pi-derived Blowfish reference (self-checked on 16 published vectors) over recorded encrypt/decrypt calls, incl. operation histories on one object and one object shared by 4 threads (every result checked; thorough: the same under Miri's data-race detector)",
         "Every recorded encrypt/decrypt of the real library is compared with an independent Blowfish whose tables are computed from pi; any altered table word, round count, key-schedule or padding step changes essentially every ciphertext, so thousands of (key,message) pairs across key lengths 8..56 and message lengths 0..4096 give high confidence; exploration because keys/messages are unbounded.",
         "reference implementation + published vectors are trusted"),
 "C13": ("exploration", "reference-model monitor with tolerance: Python BCn/BGRA decoders written from the specification",
         "Every output byte of every decoded texture is checked against the accepted range of an independent decoder (exact for pass-through channels, endpoints and selector mapping; floor/round/ceil for interpolants), across formats, odd sizes, depths, attribute bits and adversarial endpoint orderings incl. per-block sweeps.",
         "BCn per Direct3D specification; BC3 colour block decoded as BC1 as the property states"),
 "C14": ("exploration", "reference-model monitor: independent MTRL/SHPK builders, private fields observed through Debug output parsed in Python",
         "Field-by-field equality for materials (all table modes, permuted string heaps, arbitrary half patterns distinct per component, dye bit fields) and shader packages (shaders, parameters, keys, nodes, aliases), find_node for every node/alias/unknown selector, selectors vs the base-31 polynomial computed in Python.",
         "layouts as in Lumina/Penumbra"),
 "C16": ("exploration", "reference-model monitor: independent SKLB+Havok tag-file writer, PBD/CMP/TERA/LGB builders; round trips through the library's writers",
         "Every returned record is compared with what the independent builders planted; Havok tag files vary type tables, member order/presence, packed-int widths and string back-references; deformer queries are judged on a Python forest for every ordered pair of body ids in the documented domain.",
         "tag-file format v3; documented layouts"),
 "C15": ("exploration", "table monitor over completely enumerated finite domains + injectivity invariant + ordering monitor over permutations (sort() and on-disk discovery)",
         "All race/tribe/gender triples, all file-name tuples and (thorough) all equipment ids x slots x triples and all permutations of all subsets up to 7 repositories are enumerated through the real functions and compared with independent tables; the finite parts are exhaustive, the cross-check with patch-side names and discovery orders is sampled.",
         "race-code table and naming conventions of the retail client are trusted"),
 "C17": ("fault_enumeration", "panic / abort / CPU / allocation / residual-heap monitors inside the worker over enumerated faults of valid files; Err-on-partial-failure monitor for patches (prefixes, unwritable targets, strace-injected EIO/ENOSPC at every I/O step); Miri over a stratified sample of the faults (thorough); valgrind memcheck over a larger stratified sample with every returned value walked (both tiers)",
         "Every truncation point and every single-field corruption (several widths, endiannesses and boundary values) of valid seeds of each user/launcher format is executed against the real entry point under in-process monitors; patches additionally under I/O fault sequences. A finite run restates 'never runs unboundedly / out of proportion' as CPU and allocation budgets.",
         "budgets as stated in DESIGN 3.2/3.3; crash sites identified by source line text"),
 "C18": ("fault_enumeration", "panic / abort / CPU / allocation / residual-heap monitors + ASan/LSan over enumerated faults of valid generated assets and archives; fault sequences on live GameData handles; Miri over a stratified sample of the faults and the failed-inflate leak case (thorough); valgrind memcheck over a larger stratified sample with every returned value walked (both tiers)",
         "Valid instances of every asset format produced by the independent builders are damaged field by field and prefix by prefix so that the arithmetic behind the magic checks runs on hostile values; archives are damaged between open and read on live handles; the allocator monitor and LSan decide the no-leak clause for failed decompression. Parser-wide crash sites that are not repaired are listed known findings keyed by site.",
         "budgets as stated in DESIGN 3.2/3.3; known findings in known_findings.json"),
 "C12": ("exploration", "reference-model monitor (zlib.crc32 / bitwise CRC / hashlib.sha1) over recorded hash calls; Miri on a small slice (zlib-rs crc32 FFI-style call, SHA-1 block view) in the thorough tier",
         "Every recorded hash call of the real library is compared with two independent implementations; held on tens of thousands of strings over all ASCII code points and lengths 0..4096 and on files of every length 0..300 plus all SHA-1 padding boundaries up to 4 MiB. Exploration is the right level: the input space is unbounded and the oracle is exact.",
         "Python zlib/hashlib are trusted; ASCII paths only"),
}
DESIGN_REF = {k: "DESIGN.md section 4, %s" % k for k in ["C%02d" % i for i in range(1, 19)]}
PENDING = "check not built yet in this session (work in progress; see DESIGN.md section 4 for the planned monitor)"

def main():
    props = [json.loads(l)["id"] for l in open(os.path.join(V, "properties.jsonl"))]
    checks = []
    na = []
    for p in props:
        if p in CHECKS:
            lvl, tech, text, note = CHECKS[p]
            checks.append(dict(
                property_id=p,
                quick_cmd="./check %s --tier quick" % p,
                thorough_cmd="./check %s --tier thorough" % p,
                evidence_file="/verif/evidence/%s.json" % p,
                replay_cmd_template="./check %s --replay {path}" % p,
                engine="verif-shim+python-monitors",
                level_claimed=dict(category=lvl, text=text, design_ref=DESIGN_REF[p]),
                level_note=note,
                technique=tech,
            ))
        else:
            na.append(dict(property_id=p, reason=PENDING))
    m = dict(
        version=1,
        setup_cmd="./setup.sh",
        hooks=dict(guard="--cfg physis_verif", enable="RUSTFLAGS='--cfg physis_verif' (passed by every shim build in vlib/core.py)",
                   baseline_off_cmd="cd /repo && cargo test --workspace --no-fail-fast --offline",
                   source_commits=[], add_only=True),
        engines=[dict(name="verif-shim+python-monitors", path="/verif/shim, /verif/vlib, /verif/check",
                      serves_properties=sorted(CHECKS),
                      kind_free_text="Rust worker linking the real physis crate from /repo (panic hook, counting allocator, CPU clock; debug/release/ASan builds, Miri and valgrind-memcheck stages) driven by Python workload generators with independent reference models; offline checkers over the recorded call/return log")],
        checks=checks,
        notes="Runtime monitoring family. Exit codes: 0 held, 1 VIOLATION, 2 harness/build failure (never reported as a violation). Known findings: /verif/known_findings.json.",
        not_applicable=na,
    )
    json.dump(m, open(os.path.join(V, "MANIFEST.json"), "w"), indent=1)
    print("MANIFEST.json: %d checks, %d not claimed" % (len(checks), len(na)))

if __name__ == "__main__":
    main()
