#!/bin/sh
# run a check and print its distinct violation signatures compactly: tools/sites.sh C18 [tier]
cd /verif; ./check $1 --tier ${2:-quick} > /tmp/$1.out 2>&1; tail -1 /tmp/$1.out
grep "signature" /tmp/$1.out | python3 -c "
import sys,json
for l in sys.stdin:
    s=json.loads(l.split('signature: ',1)[1])
    print('%-6s %-10s %-40s | %s | %s' % (s.get('kind'), s.get('entry',''), s.get('file',''), (s.get('line_text') or s.get('sub') or s.get('what') or '')[:100], (s.get('msg') or s.get('what') or '')[:50]))
" | sort | uniq
