#!/usr/bin/env python3
"""lcov -> per file: uncovered line ranges and functions never entered (development aid)"""
import sys, re, collections
cur = None
lines = collections.defaultdict(dict)
fns = collections.defaultdict(dict)
for l in open(sys.argv[1]):
    l = l.strip()
    if l.startswith("SF:"):
        cur = l[3:]
    elif l.startswith("DA:"):
        n, c = l[3:].split(",")[:2]
        lines[cur][int(n)] = max(lines[cur].get(int(n), 0), int(c))
    elif l.startswith("FNDA:"):
        c, name = l[5:].split(",", 1)
        fns[cur][name] = max(fns[cur].get(name, 0), int(c))
for f in sorted(lines):
    tot = len(lines[f]); cov = sum(1 for c in lines[f].values() if c)
    unc = sorted(n for n, c in lines[f].items() if not c)
    ranges = []
    for n in unc:
        if ranges and n == ranges[-1][1] + 1:
            ranges[-1][1] = n
        else:
            ranges.append([n, n])
    print("%s  %d/%d lines (%.0f%%)" % (f, cov, tot, 100.0 * cov / max(tot, 1)))
    print("   uncovered:", " ".join("%d-%d" % (a, b) if a != b else str(a) for a, b in ranges)[:1500])
