#!/bin/sh
# Development aid (not a MANIFEST command): line/function coverage of /repo/src reached by the quick workloads.
#   tools/coverage.sh [tier] [checks...]   -> .work/coverage.txt (per file) and .work/coverage_uncovered.txt (functions never entered)
cd /verif
tier=${1:-quick}; shift 2>/dev/null
checks=${*:-C01 C02 C03 C04 C05 C06 C07 C08 C09 C10 C11 C12 C13 C14 C15 C16 C17 C18}
BIN=$(rustc +nightly --print sysroot)/lib/rustlib/x86_64-unknown-linux-gnu/bin
rm -rf .build/cov-profiles; mkdir -p .build/cov-profiles .work
for c in $checks; do VERIF_COVERAGE=1 VERIF_NO_EVIDENCE=1 ./check $c --tier $tier 2>&1 | grep -E "^\[C" ; done
$BIN/llvm-profdata merge -sparse .build/cov-profiles/*.profraw -o .work/cov.profdata
$BIN/llvm-cov report .build/cov/debug/verif-shim -instr-profile=.work/cov.profdata -ignore-filename-regex='(registry|rustc|verif/shim)' > .work/coverage.txt
$BIN/llvm-cov export .build/cov/debug/verif-shim -instr-profile=.work/cov.profdata -ignore-filename-regex='(registry|rustc|verif/shim)' -format=lcov > .work/coverage.lcov
python3 tools/cov_uncovered.py .work/coverage.lcov > .work/coverage_uncovered.txt
tail -3 .work/coverage.txt
