#!/usr/bin/env python3
"""Rewrites the two tables of DESIGN.md section 12 from known_findings.json (so the document cannot drift from the file the checks read)."""
import json, os, re
V = os.path.dirname(os.path.dirname(os.path.abspath(__file__)))
d = json.load(open(os.path.join(V, "known_findings.json")))["findings"]
fixed = [f for f in d if f["status"] == "fixed"]
opened = [f for f in d if f["status"] == "open"]
t1 = "| property | commit | what failed |\n|----------|--------|-------------|\n" + "".join("| %s | `%s` | %s |\n" % (f["property"], f["commit"], f["what"].replace("|", "\\|")) for f in fixed)
t2 = "| property | signature | what |\n|----------|-----------|------|\n" + "".join("| %s | `%s` | %s |\n" % (f["property"], json.dumps(f["signature"]), f["what"].replace("|", "\\|")) for f in opened)
p = os.path.join(V, "DESIGN.md")
s = open(p).read()
a = s.index("## 12. Defects found by the checks")
b = s.index("Why these are not repaired:")
head = ("## 12. Defects found by the checks\n\nEvery entry was first reproduced from its replay against the real library, then classified (section 5). **Repaired** (%d; one unguarded `fix:` commit each in `/repo`, "
        "unedited 77-test baseline re-run after each; `known_findings.json` status `fixed` - these suppress nothing):\n\n" % len(fixed))
mid = ("\n**Recorded, not repaired** (%d; `status: open`; the check prints `KNOWN-FINDING:` and exits 0; anything not matching a listed signature is a VIOLATION):\n\n" % len(opened))
s = s[:a] + head + t1 + mid + t2 + "\n" + s[b:]
open(p, "w").write(s)
print("section 12: %d fixed, %d open" % (len(fixed), len(opened)))
