#!/usr/bin/env python3
"""tiny editor for known_findings.json:  kf.py fixed <prop> <commit> <what>  |  kf.py open <prop> '<signature json>' <what>"""
import json, sys, os
p = os.path.join(os.path.dirname(os.path.dirname(os.path.abspath(__file__))), "known_findings.json")
d = json.load(open(p))
if sys.argv[1] == "fixed":
    d["findings"].append(dict(status="fixed", property=sys.argv[2], commit=sys.argv[3], what=sys.argv[4],
                              line="fixed: property=%s %s %s" % (sys.argv[2], sys.argv[3], sys.argv[4])))
else:
    d["findings"].append(dict(status="open", property=sys.argv[2], signature=json.loads(sys.argv[3]), what=sys.argv[4]))
json.dump(d, open(p, "w"), indent=1)
