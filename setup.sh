#!/bin/sh
# Build every shim variant once from /repo's current tree (offline). Checks rebuild incrementally.
set -e
cd "$(dirname "$0")"
export CARGO_NET_OFFLINE=true
python3 - <<'PY'
import sys
sys.path.insert(0, ".")
from vlib import core
for v in ("debug", "release", "asan"):
    try:
        core.build(v, quiet=False)
    except core.BuildError as e:
        print("setup: variant %s could not be built (checks will report it as inconclusive): %s" % (v, str(e)[-800:]))
        if v == "debug":
            sys.exit(2)
PY
