"""C10 - file-info and patch-list metadata are produced and parsed faithfully.

Monitor: cross-codec monitor. FileInfo tables written by the library are decoded by an
independent record parser and compared with os.stat / basename / hashlib.sha1; tables built by the
independent builder are parsed by the library. Patch lists rendered by the library are parsed by
an independent parser of the wire text, and parsed back by the library."""
import hashlib, os
from .. import text
from ..core import digest, REPO
from ..fmt import fiin

LEVEL = "exploration"
RULE = ("file sets of 0..40 files (lengths: every 0..300 spread over shards, SHA-1 padding edges 55/56/63/64/119/120 mod 64, random up to 4 MiB; "
        "names 1..63 bytes ASCII / UTF-8) through FileInfo::new + write_to_buffer + from_existing, decoded independently; Python-built tables through "
        "from_existing + write_to_buffer; boot and game patch lists with 0..50 entries, sizes up to 2^62 (sum < 2^63), 1..5 hashes, separator-free "
        "strings through to_string (independent wire parser) and from_string (entries and patch_length == sum of lengths). "
        "non-trivial = set with >= 1 file / list with >= 1 entry; distinct = digest of names+contents / of the entry list")
ASSUMPTIONS = ["hashlib.sha1 and os.stat are the independent oracles; wire format of patch lists as produced by the official patch servers (multipart-style header, TAB-separated rows)"]


def plan(tier):
    if tier == "quick":
        return [("debug", 16, dict(nsets=20, nlists=100, maxfile=1 << 20)), ("release", 2, dict(nsets=10, nlists=60, maxfile=1 << 20))]
    return [("debug", 16, dict(nsets=300, nlists=1300, maxfile=4 << 20)), ("release", 2, dict(nsets=60, nlists=300, maxfile=4 << 20)),
            ("miri", 4, dict(nsets=2, nlists=6, maxfile=3000, small=True)), ("memcheck", 2, dict(nsets=4, nlists=20, maxfile=40000, small=True))]


NAME_ALPHA = "abcdefghijklmnopqrstuvwxyzABCDEFGHIJKLMNOPQRSTUVWXYZ0123456789_-. "


def rand_name(rng, used):
    while True:
        n = rng.choice([1, 5, 12, 62, 63, rng.randint(1, 63)])
        if rng.random() < 0.15:
            s = ""
            while len(s.encode("utf-8")) < n:
                c = rng.choice("aZ9é日ñ")
                if len((s + c).encode("utf-8")) > n:
                    c = "x"
                s += c
        else:
            s = "".join(rng.choice(NAME_ALPHA) for _ in range(n))
        s = s.strip(" .") or "f"
        if s not in used and len(s.encode("utf-8")) <= 63:
            used.add(s)
            return s


def shard(ctx):
    rng, P = ctx.rng, ctx.params
    lens = [n for n in range(301) if n % ctx.nshards == ctx.index]
    if P.get("small"):
        lens = lens[::8]
    for i in range(P["nsets"]):
        fiin_case(ctx, rng, lens if i == 0 else None, P["maxfile"])
    for i in range(P["nsets"] * 2):
        fiin_parse_case(ctx, rng)
    # tables whose entry count crosses a width or power-of-two boundary (u8, 2^10, u16; 32 KiB / 64 KiB of records)
    big = [255, 256, 257, 341, 342, 682, 683, 1023, 1024, 1025, 4097] + ([65535, 65537] if ctx.tier != "quick" else [])
    if P.get("small"):
        big = []
    for n in [n for i, n in enumerate(big) if i % ctx.nshards == ctx.index]:
        fiin_parse_case(ctx, rng, n)
    if ctx.index == 2 % ctx.nshards and not P.get("small"):
        # file lengths at and around the integer constants of the hashing / table code of the tree under test (a piece size, a
        # buffer size ...) and twice that: a remainder that is taken modulo such a constant is zero only there
        consts = [c for c in text.tree_literals(REPO, ["fiin.rs", "sha1.rs"])[0] if 257 <= c <= (8 << 20)]
        lens = []
        for c in consts[:12]:
            lens += [c - 1, c, c + 1, 2 * c]
        for i in range(0, len(lens), 8):
            fiin_case(ctx, rng, lens[i:i + 8], 64 << 20)
        ctx.stats.classes["fiin-length:constant-of-the-tree"] += len(lens)
    if ctx.index == 1 % ctx.nshards and not P.get("small"):
        fiin_case(ctx, rng, [rng.choice([0, 1, 55, 64, 100]) for _ in range(rng.choice([257, 300]))], P["maxfile"])
    for i in range(P["nlists"]):
        plist_case(ctx, rng)


def fiin_case(ctx, rng, lens, maxfile):
    if lens is None:
        k = rng.choice([0, 1, 1, 2, 5, 12, 40])
        lens = []
        for _ in range(k):
            base = rng.choice([0, 0, 64, 128, 4096, 1 << 16, rng.randrange(0, maxfile, 64)])
            lens.append(min(maxfile, base + rng.choice([55, 56, 63, 64, 119, 120, 0, 1, rng.randrange(64)])))
        if k >= 2 and rng.random() < 0.3:
            # descending tails: each file leaves fewer bytes in its last block than the one before it, down to an empty file
            lens = sorted(lens, key=lambda n: -(n % 64))
            lens[-1] = rng.choice([0, 0, lens[-1] // 64 * 64])
    used = set()
    d = ctx.path("fset")
    os.makedirs(d, exist_ok=True)
    files = []
    samename = False
    for n in lens:
        name = rand_name(rng, used)
        data = rng.randbytes(n)
        sub = rng.choice(["", "", "+sub", "+a/+b"])
        if files and rng.random() < 0.12:
            # the same base name again, in another directory (boot/ffxiv.ver, game/ffxiv.ver ...): every file gets its own record
            prev = rng.choice(files)
            others = [x for x in ("", "+sub", "+a/+b", "+c") if not os.path.exists(os.path.join(d, x, prev[1]))]
            if others:
                name, sub = prev[1], rng.choice(others)
                samename = True
        p = os.path.join(d, sub, name)
        os.makedirs(os.path.dirname(p), exist_ok=True)
        with open(p, "wb") as f:
            f.write(data)
        files.append((p, name, data))
    total = sum(len(x[2]) for x in files)
    out = ctx.path("set.fiin")
    key = digest([(n, hashlib.sha1(dt).hexdigest()) for _, n, dt in files])
    ctx.case(key, len(files) >= 1, ["fiin", "fiin-files:%s" % bucket(len(files))] + (["fiin-same-base-name-twice"] if samename else []) + ["fiin-mod64:%d" % (len(x[2]) % 64) for x in files[:8]],
             sample=dict(files=[(n, len(dt)) for _, n, dt in files[:3]]))
    rec = ctx.call("fiin.new", out, *[p for p, _, _ in files], input_bytes=total)
    ctx.check_mon(rec, total, files=[p for p, _, _ in files[:3]])
    if rec.ok:
        raw = ctx.read("set.fiin")
        try:
            unk, esz, ents = fiin.parse(raw)
        except ValueError as e:
            ctx.violation("codec", dict(sub="fiin_layout"), dict(error=str(e)))
            ents = None
        if ents is not None:
            if unk != 1024 or esz != 96 * len(files) or len(raw) != 1024 + 96 * len(files) or raw[8:24] != b"\0" * 16 or raw[32:1024] != b"\0" * 992:
                ctx.violation("codec", dict(sub="fiin_header"), dict(unknown=unk, entries_size=esz, length=len(raw), nfiles=len(files)))
            if len(ents) != len(files):
                ctx.violation("codec", dict(sub="fiin_count"), dict(got=len(ents), expected=len(files)))
            for (p, name, data), e in zip(files, ents):
                st = os.stat(p)
                exp = hashlib.sha1(data).digest()
                if e["size"] != st.st_size or e["name"] != name.encode("utf-8") or e["digest"] != exp or e["pad0"] != b"\0" * 4 or e["pad1"] != b"\0" * 4:
                    ctx.violation("codec", dict(sub="fiin_record"), dict(name=name, size=(e["size"], st.st_size), digest=(e["digest"].hex(), exp.hex()), name_got=repr(e["name"])), files=[p])
            # library re-parse of its own buffer
            rp = rec.value.get("reparsed")
            if rp is None:
                ctx.violation("codec", dict(sub="fiin_reparse_failed"), {})
            else:
                expl = [dict(size=len(dt), name=n, sha1=hashlib.sha1(dt).hexdigest() + "00000000") for _, n, dt in files]
                if rp != expl:
                    ctx.violation("codec", dict(sub="fiin_reparse"), dict(got=repr(rp)[:800], expected=repr(expl)[:800]))
                if rec.value.get("built") != [dict(size=len(dt), name=n, sha1=hashlib.sha1(dt).hexdigest()) for _, n, dt in files]:
                    ctx.violation("codec", dict(sub="fiin_built_entries"), dict(got=repr(rec.value.get("built"))[:800]))
    elif rec.outcome == "none":
        ctx.violation("codec", dict(sub="fiin_new_failed"), dict(files=[n for _, n, _ in files][:5]))
    for p, _, _ in files:
        os.unlink(p)


def fiin_parse_case(ctx, rng, count=None):
    used = set()
    ents = []
    for i in range(rng.choice([0, 1, 2, 7, 30]) if count is None else count):
        if count is not None:
            ents.append((rng.getrandbits(31), ("f%05d.%s" % (i, rng.choice(["dat", "index", "exe"]))).encode(), rng.randbytes(20)))
            continue
        ents.append((rng.choice([0, 1, 2 ** 31 - 1, rng.getrandbits(31)]), rand_name(rng, used).encode("utf-8"), rng.randbytes(20)))
    raw = fiin.build(ents)
    f = ctx.write("b.fiin", raw)
    ctx.case(digest(raw), len(ents) >= 1, ["fiin-parse", "fiin-parse-n:%s" % bucket(len(ents))])
    rec = ctx.call("fiin.parse", f, input_bytes=len(raw))
    ctx.check_mon(rec, len(raw), files=[f])
    if rec.ok:
        exp = [dict(size=s, name=n.decode("utf-8"), sha1=d.hex() + "00000000") for s, n, d in ents]
        if rec.value["entries"] != exp:
            ctx.violation("codec", dict(sub="fiin_parse"), dict(got=repr(rec.value["entries"])[:800], expected=repr(exp)[:800]), files=[f])
        if rec.value["rewrite_eq"] is not True:
            ctx.violation("codec", dict(sub="fiin_rewrite"), {}, files=[f])
    elif rec.outcome == "none":
        ctx.violation("codec", dict(sub="fiin_parse_failed"), {}, files=[f])


def bucket(n):
    for b in (0, 1, 2, 8, 40, 256, 1024, 65535):
        if n <= b:
            return "<=%d" % b
    return ">65535"


STR_ALPHA = "abcdefghijklmnopqrstuvwxyzABCDEFGHIJKLMNOPQRSTUVWXYZ0123456789_-./:?=&%~"


def sword(rng, a, b):
    return "".join(rng.choice(STR_ALPHA) for _ in range(rng.randint(a, b)))


def plist_case(ctx, rng):
    kind = rng.choice(["boot", "game"])
    n = rng.choice([0, 1, 1, 2, 5, 20, 50])
    ents = []
    budget = 2 ** 63 - 1
    for i in range(n):
        ln = rng.choice([0, 1, 22221335, 2 ** 31, 2 ** 32 + 5, 2 ** 62, rng.getrandbits(50), rng.getrandbits(62)])
        ln = min(ln, budget)
        budget -= ln
        ents.append(dict(
            url="http://patch-dl.ffxiv.com/%s/%s/D%s.patch" % (kind, sword(rng, 1, 12), sword(rng, 4, 20)),
            version="2023.%02d.%02d.0000.%04d" % (rng.randint(1, 12), rng.randint(1, 28), i) if rng.random() < 0.8 else sword(rng, 1, 24),
            hash_block_size=rng.choice([0, 50000000, 2 ** 62, rng.getrandbits(40)]),
            length=ln,
            size_on_disk=rng.choice([0, 69674819, 2 ** 62, 2 ** 63 - 1, rng.getrandbits(60)]),
            hashes=[rng.choice(["%040x", "%040X", "%040x"]) % rng.getrandbits(160) if rng.random() < 0.9 else "".join(rng.choice("0123456789abcdefABCDEF") for _ in range(40)) for _ in range(rng.randint(1, 5))],
            ua=rng.choice([0, 7, -1, 2 ** 31 - 1]), ub=rng.choice([0, 8, -2 ** 31]),
        ))
    # string fields whose value is a word the format itself uses (literals of the tree under test that contain no separator):
    # a parser that looks for a keyword by value instead of by position is only confused by a field that equals it
    words = [w for w in text.tree_literals(REPO, ["patchlist.rs", "patch.rs", "fiin.rs"])[1] if w and not any(c in w for c in "\t\r\n ,;") and len(w) <= 24] + ["sha1", "0", "-1"]
    keyword = False
    if ents and rng.random() < 0.2:
        e = rng.choice(ents)
        w = rng.choice(words)
        for k in rng.sample(["version", "version", "url", "pid"], 1):
            if k == "pid":
                continue
            e[k] = w if k == "version" or rng.random() < 0.5 else e[k] + w
        keyword = True
    # a list may name the same patch more than once, or rows that differ in a single field
    if ents and rng.random() < 0.25:
        for _ in range(rng.choice([1, 1, 3])):
            src = dict(rng.choice(ents))
            if rng.random() < 0.5:
                k = rng.choice(["length", "size_on_disk", "version"])
                src[k] = (src[k] + 1 if src[k] < 2 ** 62 else src[k] - 1) if k != "version" else src[k] + "a"     # sizes stay within 63 bits
            if budget - src["length"] >= 0:
                budget -= src["length"]
                ents.insert(rng.randrange(len(ents) + 1), src)
        n = len(ents)
        dupes = True
    else:
        dupes = False
    pid = rng.choice(["477D80B1_38BC_41d4_8B48_5273ADB89CAC", sword(rng, 1, 40)])
    loc = rng.choice(["ffxivpatch/2b5cbc63/metainfo/D2023.04.28.0000.0001.http", sword(rng, 0, 60)])
    spec = pid.encode().hex() + "\n" + (loc.encode().hex() or "") + "\n"
    for e in ents:
        spec += "%s %s %d %d %d %s %d %d\n" % (e["url"].encode().hex(), e["version"].encode().hex(), e["hash_block_size"], e["length"], e["size_on_disk"],
                                              ",".join(h.encode().hex() for h in e["hashes"]), e["ua"], e["ub"])
    sf = ctx.write("pl.spec", spec.encode())
    out = ctx.path("pl.wire")
    total = sum(e["length"] for e in ents)
    ctx.case(digest(kind, repr(ents)), n >= 1, ["plist-" + kind, "plist-n:%s" % bucket(n), "plist-total:%s" % ("big" if total >= 2 ** 32 else "small")] + (["plist-repeated-rows"] if dupes else []) + (["plist-field-equals-keyword"] if keyword else []),
             sample=dict(kind=kind, entries=n, total=total, first=ents[0] if ents else None))
    rec = ctx.call("plist.to_string", kind, sf, out, input_bytes=len(spec))
    ctx.check_mon(rec, len(spec), files=[sf])
    if not rec.ok:
        return
    wire = ctx.read("pl.wire").decode("utf-8")
    # independent parser of the wire text
    parts = wire.split("\r\n")
    ok = (len(parts) == 7 + n and parts[0] == "--" + pid and parts[1] == "Content-Type: application/octet-stream" and parts[2] == "Content-Location: " + loc
          and parts[3] == "X-Patch-Length: %d" % total and parts[4] == "" and parts[-2] == "--" + pid + "--" and parts[-1] == "")
    if not ok:
        ctx.violation("codec", dict(sub="plist_wire_frame", list=kind), dict(head=parts[:5], tail=parts[-2:], expected_total=total), files=[sf])
        return
    for row, e in zip(parts[5:-2], ents):
        f = row.split("\t")
        if kind == "boot":
            good = len(f) == 6 and f[0] == str(e["length"]) and f[1] == str(e["size_on_disk"]) and f[2] == str(e["ua"]) and f[3] == str(e["ub"]) and f[4] == e["version"] and f[5] == e["url"]
        else:
            good = (len(f) == 9 and f[0] == str(e["length"]) and f[1] == str(e["size_on_disk"]) and f[2] == str(e["ua"]) and f[3] == str(e["ub"]) and f[4] == e["version"]
                    and f[5] == "sha1" and f[6] == str(e["hash_block_size"]) and f[7] == ",".join(e["hashes"]) and f[8] == e["url"])
        if not good:
            ctx.violation("codec", dict(sub="plist_wire_row", list=kind), dict(row=row[:400], entry=e), files=[sf])
    # library parse of the wire text
    r2 = ctx.call("plist.from_string", kind, out, input_bytes=len(wire))
    ctx.check_mon(r2, len(wire), files=[out])
    if r2.ok:
        got = r2.value["patches"]
        exp = []
        for e in ents:
            exp.append(dict(url=e["url"], version=e["version"], hash_block_size=e["hash_block_size"] if kind == "game" else 0, length=e["length"],
                            size_on_disk=e["size_on_disk"], hashes=e["hashes"] if kind == "game" else []))
        if got != exp:
            ctx.violation("codec", dict(sub="plist_from_string", list=kind), dict(got=repr(got)[:800], expected=repr(exp)[:800]), files=[out])
        if r2.value["patch_length"] != total:
            ctx.violation("codec", dict(sub="plist_patch_length", list=kind), dict(got=r2.value["patch_length"], expected=total), files=[out])
        if r2.value["again_len"] <= 0:
            ctx.violation("codec", dict(sub="plist_rerender", list=kind), {}, files=[out])
