"""C13 - textures decode to the pixels their format defines.

Monitor: reference-model monitor with tolerance: Python BCn/BGRA decoders from the specification;
pass-through channels, endpoints and selector mapping exact, interpolants within the floor/round/ceil
of the exact rational."""
import os, struct
from ..core import digest
from ..fmt import tex

LEVEL = "exploration"
RULE = ("random textures: format in B8G8R8A8/BC1/BC3/BC5, width/height 1..512 incl. non-multiples of 4 (mostly <= 64, some large), depth 1..8 (height multiple of 4 when depth > 1), "
        "arbitrary attribute bits, random + adversarial payloads (forced q0>q1, q0==q1, q0<q1, a0>a1, a0<=a1 blocks), trailing junk; per-block sweeps over endpoint orderings x all selector "
        "patterns; oracle: output size w*h*d*4, every byte inside the accepted range of the reference decoder (BC1 3-colour black alpha unconstrained), 3-D flag iff attribute bit 0x1000000. "
        "non-trivial = block-compressed texture or >= 2 pixels; distinct = digest of header+payload")
ASSUMPTIONS = ["BCn decoding per the Direct3D block-compression specification; floor and rounded division both accepted for interpolants"]


def plan(tier):
    if tier == "quick":
        return [("debug", 16, dict(n=60, big=1, vol=1)), ("release", 4, dict(n=40, big=1, vol=1)), ("asan", 2, dict(n=20, big=1, vol=1))]
    return [("debug", 16, dict(n=2000, big=20, vol=4)), ("release", 8, dict(n=1000, big=8, vol=4)), ("asan", 4, dict(n=200, big=2, vol=2)), ("memcheck", 4, dict(n=20, big=0, vol=1))]


def adversarial_block(rng, fmt):
    bs = 8 if fmt == "bc1" else 16
    blk = bytearray(rng.randbytes(bs))
    m = rng.random()
    if fmt in ("bc1", "bc3"):
        o = 0 if fmt == "bc1" else 8
        q = sorted(struct.unpack_from("<HH", blk, o))
        if m < 0.25:
            struct.pack_into("<HH", blk, o, q[0], q[1])  # q0 <= q1: 3-colour mode
        elif m < 0.35:
            struct.pack_into("<HH", blk, o, q[0], q[0])
        elif m < 0.6:
            struct.pack_into("<HH", blk, o, q[1], q[0] if q[0] != q[1] else (q[1] - 1) & 0xFFFF)
    if fmt in ("bc3", "bc5"):
        for o in ((0,) if fmt == "bc3" else (0, 8)):
            a = sorted(blk[o:o + 2])
            k = rng.random()
            if k < 0.3:
                blk[o], blk[o + 1] = a[0], a[1]
            elif k < 0.4:
                blk[o + 1] = blk[o]
            elif k < 0.7:
                blk[o], blk[o + 1] = a[1], a[0]
    if rng.random() < 0.1:
        # all selectors equal
        v = rng.randrange(4)
        sel = sum(v << (2 * i) for i in range(16))
        if fmt == "bc1":
            struct.pack_into("<I", blk, 4, sel)
        elif fmt == "bc3":
            struct.pack_into("<I", blk, 12, sel)
    return bytes(blk)


def shard(ctx):
    rng, P = ctx.rng, ctx.params
    from .. import faults, seeds
    fr = __import__("random").Random("c13-failing-%d-%d" % (ctx.seed, ctx.index))
    bad = [ctx.write("failing-%d.tex" % i, d) for i, d in enumerate(x for _, data, _ in seeds.seeds_tex(fr)[:3] for x in faults.damaged_variants(fr, data, 3))]
    ctx.failing_calls_first([("tex.parse", (b, ctx.path("failing.rgba"))) for b in bad], before=("tex.parse",))
    for i in range(P["n"]):
        big = i < P["big"]
        fmt = rng.choice(list(tex.FORMATS))
        if big:
            w, h = rng.choice([(512, 512), (509, 131), (256, 512), (3, 512)])
            d = 1
        else:
            w = rng.choice([1, 2, 3, 4, 5, 7, 8, 16, rng.randint(1, 64)])
            h = rng.choice([1, 2, 3, 4, 5, 7, 8, 16, rng.randint(1, 64)])
            d = rng.choice([1, 1, 1, 2, 3, 8])
        if d > 1:
            h = (h + 3) // 4 * 4
        case(ctx, rng, fmt, w, h, d, None)
    # volumes at the top of the documented range (up to 512 x 512 x 8 = 2 Mi pixels) in every format
    for fmt in [f for i, f in enumerate(sorted(tex.FORMATS)) if (i + ctx.index) % max(1, 4 // P.get("vol", 1)) == 0][:P.get("vol", 1)]:
        w, h = rng.choice([(512, 512), (512, 256), (256, 512), (384, 388), (511, 512)])
        d = rng.choice([8, 8, 5, 6, 7])
        case(ctx, rng, fmt, w, h, d, None, cls="volume-large")
    # per-block sweeps: one 4x4 block, all orderings x selector patterns
    if True:
        for fmt in ("bc1", "bc3", "bc5"):
            blocks = []
            for order in ("gt", "eq", "lt"):
                for amode in ("gt", "le"):
                    for selpat in range(4 if fmt != "bc5" else 1):
                        q0, q1 = rng.getrandbits(16), rng.getrandbits(16)
                        lo_, hi_ = min(q0, q1), max(q0, q1)
                        if lo_ == hi_:
                            hi_ = (lo_ + 1) & 0xFFFF; lo_, hi_ = min(lo_, hi_), max(lo_, hi_)
                        q = {"gt": (hi_, lo_), "eq": (lo_, lo_), "lt": (lo_, hi_)}[order]
                        a0, a1 = rng.randrange(256), rng.randrange(256)
                        al, ah = min(a0, a1), max(a0, a1)
                        if al == ah:
                            ah = min(255, al + 1); al = ah - 1
                        a = (ah, al) if amode == "gt" else (al, ah)
                        sel = sum(((i + selpat) & 3) << (2 * i) for i in range(16))
                        abits = sum(((i + selpat) & 7) << (3 * i) for i in range(16))
                        ablock = bytes(a) + abits.to_bytes(6, "little")
                        cblock = struct.pack("<HHI", q[0], q[1], sel)
                        if fmt == "bc1":
                            blocks.append(cblock)
                        elif fmt == "bc3":
                            blocks.append(ablock + cblock)
                        else:
                            blocks.append(ablock + bytes((a[1], a[0])) + abits.to_bytes(6, "little"))
            payload = b"".join(blocks)
            case(ctx, rng, fmt, 4 * len(blocks), 4, 1, payload, cls="block-sweep")
        # selector words in which all pixels but one carry the same selector: every position of the odd pixel, a sample of (common,
        # odd) values per shard - a "flat block" shortcut must look at all sixteen pixels
        for fmt in ("bc1", "bc3", "bc5"):
            blocks = []
            nv = 4 if fmt == "bc1" else 8
            pairs = [(s_, t_) for s_ in range(nv) for t_ in range(nv) if s_ != t_]
            mine = [p_ for i_, p_ in enumerate(pairs) if (i_ + ctx.index) % max(1, min(ctx.nshards, len(pairs) // 3)) == 0]
            for s_, t_ in mine:
                for pos in range(16):
                    q0, q1 = rng.getrandbits(16), rng.getrandbits(16)
                    a = bytes((rng.randrange(256), rng.randrange(256)))
                    sel2 = sum((t_ & 3 if i == pos else s_ & 3) << (2 * i) for i in range(16))
                    sel3 = sum((t_ if i == pos else s_) << (3 * i) for i in range(16))
                    if fmt == "bc1":
                        blocks.append(struct.pack("<HHI", q0, q1, sum((t_ if i == pos else s_) << (2 * i) for i in range(16))))
                    elif fmt == "bc3":
                        blocks.append(a + sel3.to_bytes(6, "little") + struct.pack("<HHI", q0, q1, sel2))
                    else:
                        blocks.append(a + sel3.to_bytes(6, "little") + bytes((rng.randrange(256), rng.randrange(256))) + sel3.to_bytes(6, "little"))
            for i in range(0, len(blocks), 64):
                part = blocks[i:i + 64]
                case(ctx, rng, fmt, 4 * len(part), 4, 1, b"".join(part), cls="all-but-one-selector-equal")


def case(ctx, rng, fmt, w, h, d, payload, cls="random"):
    attr = rng.getrandbits(32) if rng.random() < 0.7 else rng.choice([0, tex.ATTR_3D, 0x800000, 0x2000000])
    H = h * d
    if payload is None:
        if fmt == "bgra":
            payload = rng.randbytes(w * H * 4)
        else:
            nb = ((w + 3) // 4) * ((H + 3) // 4)
            if nb > 40000:
                pool = [adversarial_block(rng, fmt) for _ in range(512)]
                payload = b"".join(rng.choices(pool, k=nb))
            elif nb > 2000:
                payload = rng.randbytes(nb * (8 if fmt == "bc1" else 16))
            else:
                blocks = [adversarial_block(rng, fmt) for _ in range(nb)]
                if fmt != "bc1" and rng.random() < 0.4:
                    # neighbouring 16-byte blocks that agree in one half only (same alpha, other colour; same red, other green)
                    for i in range(1, nb):
                        k = rng.random()
                        if k < 0.3:
                            blocks[i] = blocks[i - 1][:8] + blocks[i][8:]
                        elif k < 0.45:
                            blocks[i] = blocks[i][:8] + blocks[i - 1][8:]
                        elif k < 0.5:
                            blocks[i] = blocks[i - 1]
                    cls = cls if cls != "random" else "half-shared-neighbours"
                payload = b"".join(blocks)
    # a mip chain behind the first surface: the header announces it, the decoded image is still the first surface
    mips = 1
    tail = b"\xEE" * rng.choice([0, 0, 1, 9])
    if rng.random() < 0.3:
        full = max(w, h).bit_length()
        mips = rng.choice([2, full, full, min(13, full + 1)])
        tail = rng.randbytes(min(len(payload) // 2 + 8, 4096))
    lod = (0, 0, 0)
    if rng.random() < 0.3:
        # header fields the decoder has no use for: any mip count (also 0 and values with a high byte), any LOD entries
        mips = rng.choice([mips, 0, 1, 0x0100, 0x0200, 0x0D01, 0xFFFF, rng.getrandbits(16)])
        lod = rng.choice([(0, 1, 2), (2, 2, 2), (0, 0, 0), tuple(rng.getrandbits(32) for _ in range(3)), (1, 1, 1)])
    hdr = tex.header(attr, fmt, w, h, d, mips=mips, lod=lod)
    data = hdr + payload + tail
    f = ctx.write("t.tex", data)
    out = ctx.path("t.rgba")
    if os.path.exists(out):
        os.unlink(out)
    ctx.case(digest(data), fmt != "bgra" or w * H >= 2, ["fmt:" + fmt, "depth:%d" % d, "mips:%s" % ("1" if mips == 1 else "0" if mips == 0 else ">1" if mips < 256 else "high-byte"), "lod-entries:%s" % ("zero" if lod == (0, 0, 0) else "other"), "square:%d" % (w == h), "pixels:%s" % ("<=2^16" if w * H <= 65536 else "<=2^20" if w * H <= (1 << 20) else ">2^20"), "w%%4:%d" % (w % 4), "h%%4:%d" % (h % 4), cls, "3d:%d" % (1 if attr & tex.ATTR_3D else 0)],
             sample=dict(format=fmt, width=w, height=h, depth=d, attribute=attr, payload_bytes=len(payload)))
    rec = ctx.call("tex.parse", f, out, input_bytes=len(data))
    ctx.check_mon(rec, len(data), files=[f])
    if rec.outcome == "none":
        ctx.violation("decode", dict(sub="valid_texture_rejected", fmt=fmt), dict(w=w, h=h, d=d), files=[f])
        return
    if not rec.ok:
        return
    v = rec.value
    exp3d = bool(attr & tex.ATTR_3D)
    if (v["width"], v["height"], v["depth"]) != (w, h, d) or v["len"] != w * H * 4:
        ctx.violation("decode", dict(sub="dimensions", fmt=fmt), dict(got=v, expected=(w, h, d, w * H * 4)), files=[f])
        return
    if v["three_d"] != exp3d:
        ctx.violation("decode", dict(sub="texture_type_flag"), dict(attribute=attr, got=v["three_d"], expected=exp3d), files=[f])
    got = ctx.read("t.rgba")
    lo, hi = tex.decode_expected(fmt, w, H, payload)
    if got == bytes(lo):
        return
    bad = None
    for i in range(len(got)):
        if hi[i] < lo[i]:
            continue
        if not (lo[i] <= got[i] <= hi[i]):
            bad = i
            break
    if bad is not None:
        px = bad // 4
        ctx.violation("decode", dict(sub="pixel_value", fmt=fmt, channel="RGBA"[bad % 4]),
                      dict(x=px % w, y=px // w, channel="RGBA"[bad % 4], got=got[bad], accepted=(lo[bad], hi[bad]), w=w, h=h, d=d), files=[f])
    else:
        ctx.note("interpolant not equal to floor but within accepted range")
