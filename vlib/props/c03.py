"""C03 - applying a ZiPatch has exactly the reference effect on the install.

Monitor: conservation monitor "tree after == model tree" (snapshots of the whole target directory
before/after each apply, compared with a Python interpreter of the reference semantics run on the
same abstract op list) + (thorough) syscall monitor via strace on one-shot applies."""
import itertools, os, re, shutil, struct, subprocess
from ..core import digest, build
from ..fmt import zipatch as zp

LEVEL = "exploration"
RULE = ("abstract op lists serialised to the reference wire format and interpreted by a Python model: all short sequences over a "
        "concrete 12-op alphabet (A x3, D, E, H x3, F/A x2, F/D, F/M|F/R) after a T for platforms win32/ps3/ps4 (quick: length <= 3; thorough: <= 4), random sequences of 5..60 ops with arbitrary ids / offsets / "
        "block counts / raw+deflated multi-block files / FHDR v2,v3 / APLY / ADIR / DELD / X / I, chains of 2..4 patches, all applied to random pre-existing trees (files overlapping "
        "the written regions, files at AddFile targets, unrelated files) through ZiPatch::apply, GameData::apply_patch and BootData::apply_patch. Oracle: apply returns Ok, every regular "
        "file byte-identical to the model, file set equal, directories required <= actual <= required+optional. non-trivial = patch with >= 1 tree-changing op; distinct = digest of the wire bytes + tree")
ASSUMPTIONS = ["reference ZiPatch semantics as implemented by XIVLauncher's ZiPatch reader (chunk layouts, <<7 block units, empty-block header, header offsets 0/1024)",
               "leniencies: directory effects of F/M (only parent required), ADIR/DELD (optional), F/R (no regular file of sqpack/<exp> survives except .var/.bk2; movie/<exp> unconstrained except that 00000..00003.bk2 are kept); "
               "D into a missing directory not generated; region in {-1, 1}"]


def plan(tier):
    if tier == "quick":
        return [("debug", 12, dict(maxlen=3, nrand=40, nchain=12, strace=0)), ("release", 4, dict(maxlen=2, nrand=30, nchain=8, strace=0))]
    return [("debug", 16, dict(maxlen=4, nrand=500, nchain=150, strace=12, far=4)), ("release", 8, dict(maxlen=3, nrand=300, nchain=80, strace=0, far=2)),
            ("asan", 4, dict(maxlen=1, nrand=40, nchain=10, strace=0))]


def alphabet(rng, plat):
    pn = zp.PLATFORM_NAMES[plat]
    f0 = "sqpack/ffxiv/000000.%s.dat0" % pn
    return [
        dict(op="A", main=0, sub=0, fid=0, off=0, data=rng.randbytes(256), dele=0),
        dict(op="A", main=0, sub=0, fid=0, off=1, data=rng.randbytes(128), dele=2),
        dict(op="A", main=4, sub=0x0102, fid=1, off=3, data=rng.randbytes(128), dele=0),
        dict(op="D", main=0, sub=0, fid=0, off=1, n=2),
        dict(op="E", main=0, sub=0, fid=0, off=4, n=3),
        dict(op="H", fk=b"D", hk=b"V", main=0, sub=0, fid=0, data=rng.randbytes(1024)),
        dict(op="H", fk=b"I", hk=b"I", main=0, sub=0, fid=0, data=rng.randbytes(1024)),
        dict(op="H", fk=b"I", hk=b"D", main=0, sub=0, fid=2, data=rng.randbytes(1024)),
        dict(op="FA", path=f0, offset=0, chunks=[(b"abc" * 100, True)]),
        dict(op="FA", path=f0, offset=200, chunks=[(rng.randbytes(150), False), (rng.randbytes(70), False)]),
        dict(op="FD", path=f0),
        rng.choice([dict(op="FM", path="sqpack/ex2/x"), dict(op="FM", path=rng.choice(["sqpack/ex2/", "top/", "a/b/c/"])), dict(op="FR", expansion=0)]),
    ]


def dir_safe(ops, pre_dirs):
    """D is only generated when its directory certainly exists (see DESIGN C03 leniencies)"""
    present = set(pre_dirs)
    plat = 0
    for o in ops:
        k = o["op"]
        if k == "T":
            plat = o["platform"]
        elif k in ("A", "E", "H"):
            present.add("sqpack/" + zp.exp_folder(o["sub"]))
        elif k in ("FA", "FM"):
            d = os.path.dirname(o["path"])
            while d:
                present.add(d); d = os.path.dirname(d)
        elif k == "FR":
            folder = "ffxiv" if o["expansion"] == 0 else "ex%d" % o["expansion"]
            present = {d for d in present if not (d + "/").startswith("sqpack/%s/" % folder)}
        elif k == "D":
            if "sqpack/" + zp.exp_folder(o["sub"]) not in present:
                return False
    return True


def pre_tree(rng, plat, rich):
    pn = zp.PLATFORM_NAMES[plat]
    files = {}
    dirs = {"sqpack/ffxiv", "sqpack/ex1"}
    if rich:
        if rng.random() < 0.7:
            files["sqpack/ffxiv/000000.%s.dat0" % pn] = rng.randbytes(rng.choice([10, 300, 1500, 3000]))
        if rng.random() < 0.5:
            files["sqpack/ffxiv/000000.%s.index" % pn] = rng.randbytes(rng.choice([100, 2048, 4000]))
        if rng.random() < 0.5:
            files["sqpack/ex1/040102.%s.dat1" % pn] = rng.randbytes(rng.choice([100, 700]))
        files["other.txt"] = b"untouched"
        if rng.random() < 0.5:
            files["sqpack/ffxiv/keep.var"] = b"var"
        if rng.random() < 0.5:
            files["movie/ffxiv/00000.bk2"] = b"movie"
        if rng.random() < 0.3:
            dirs.add("emptydir/sub")
    return files, dirs


def run_patch_list(ctx, rng, patches, files, dirs, classes, via="zp.apply", label="", use_strace=False):
    """apply `patches` (list of op lists) in order to a fresh tree; compare with the model"""
    root = ctx.path("target")
    shutil.rmtree(root, ignore_errors=True)
    os.makedirs(root)
    zp.write_tree(root, files, dirs)
    if via == "boot.apply":
        open(os.path.join(root, "ffxivboot.ver"), "w").write("2012.01.01.0000.0000")
        files = dict(files); files["ffxivboot.ver"] = b"2012.01.01.0000.0000"
    model = zp.Model(files, dirs)
    wires = []
    pfiles = []
    for i, ops in enumerate(patches):
        wire = zp.serialise(ops)
        wires.append(wire)
        pfiles.append(ctx.write("p%d.patch" % i, wire))
    key = digest(b"".join(wires), sorted(files.items()))
    changing = any(o["op"] in ("A", "D", "E", "H", "FA", "FD", "FR", "FM") for ops in patches for o in ops)
    ctx.case(key, changing, classes + ["via:" + via], sample=dict(ops=[[o["op"] for o in ops] for ops in patches], label=label, pre_existing=sorted(files)[:4]))
    handle = None
    if via == "gd.apply_patch":
        r = ctx.call("gd.open", "win32", root)
        handle = r.value["handle"] if r.ok else None
    elif via == "boot.apply":
        r = ctx.call("boot.open", root)
        handle = r.value["handle"] if r.ok else None
    if rng.random() < 0.2:
        failed_apply_first(ctx, rng)
        ctx.stats.classes["history:after-a-failed-apply"] += 1
    for ops, pf, wire in zip(patches, pfiles, wires):
        model.platform = 0
        model.apply(ops)
        if use_strace:
            ok = strace_apply(ctx, root, pf, model)
            if ok is None:
                use_strace = False
            else:
                continue
        if handle is not None:
            rec = ctx.call(via, handle, pf, input_bytes=len(wire))
        else:
            rec = ctx.call("zp.apply", root, pf, input_bytes=len(wire))
        ctx.check_mon(rec, len(wire) + sum(len(v) for v in files.values()), residual=(handle is None), files=[pf])
        if rec.outcome.startswith("err"):
            ctx.violation("apply", dict(sub="apply_failed", err=rec.outcome), dict(ops=[o["op"] for o in ops], label=label), files=[pf])
            break
        if not rec.ok:
            break
    else:
        got_files, got_dirs = zp.snapshot(root)
        diffs = zp.compare(model, got_files, got_dirs)
        if diffs:
            kinds = sorted({d[0] for d in diffs})
            opset = "+".join(sorted({o["op"] for ops in patches for o in ops}))
            plats = sorted({o["platform"] for ops in patches for o in ops if o["op"] == "T"})
            ctx.violation("tree", dict(sub="tree_differs", diff="+".join(kinds), platform=",".join(map(str, plats))),
                          dict(diffs=[list(d) for d in diffs[:6]], ops=[[describe(o) for o in ops] for ops in patches], label=label, opset=opset), files=pfiles)
    if handle is not None:
        ctx.call("drop", handle)
    shutil.rmtree(root, ignore_errors=True)


def failed_apply_first(ctx, rng):
    """an apply that fails (a patch for another platform cut short inside a later chunk, or with a damaged block) on some other
    directory, in the same process right before the apply under test: nothing of it may carry over (platform, buffers, streams)"""
    plat = rng.choice([1, 2, 3, 4])
    ops = [dict(op="FHDR", version=3), dict(op="T", platform=plat, region=rng.choice([-1, 1])),
           dict(op="A", main=0xA, sub=0, fid=0, off=0, data=rng.randbytes(256), dele=1),
           dict(op="FA", path="game/poison.bin", offset=0, chunks=[(rng.randbytes(3000), True), (rng.randbytes(500), False)]),
           dict(op="E", main=0xA, sub=0, fid=0, off=4, n=2), dict(op="EOF")]
    wire = zp.serialise(ops)
    k = rng.random()
    if k < 0.6:
        wire = wire[:rng.randrange(len(wire) // 3, len(wire) - 30)]      # cut short after the target-info chunk
    else:
        b = bytearray(wire)
        i = wire.find(b"game/poison.bin")
        for j in range(i + 40, min(len(b), i + 40 + 64)):
            b[j] ^= 0x5A                                                   # damaged block header / deflate stream
        wire = bytes(b)
    pf = ctx.write("poison.patch", wire)
    root = ctx.path("poison-target")
    shutil.rmtree(root, ignore_errors=True)
    os.makedirs(os.path.join(root, "sqpack", "ffxiv"))
    rec = ctx.call("zp.apply", root, pf, input_bytes=len(wire))
    ctx.stats.monitor["poison_apply:" + rec.outcome.split(":")[0]] += 1
    shutil.rmtree(root, ignore_errors=True)


def describe(o):
    return {k: (v if not isinstance(v, (bytes, bytearray)) or len(v) < 12 else "<%d bytes>" % len(v)) for k, v in o.items() if k != "chunks"} | (
        {"chunks": [(len(c), d) for c, d in o["chunks"]]} if "chunks" in o else {})


def strace_apply(ctx, root, pf, model):
    """syscall monitor: run one apply under strace and check every path opened for writing / created / removed"""
    if not shutil.which("strace"):
        ctx.inconclusive("strace not available")
        return None
    log = ctx.path("strace.log")
    binary = build(ctx.variant)
    p = subprocess.run(["strace", "-f", "-y", "-o", log, "-e", "trace=openat,open,creat,unlink,unlinkat,mkdir,mkdirat,rename,renameat,renameat2,ftruncate,truncate,rmdir",
                        binary, "--once", "zp.apply", root, pf], stdout=subprocess.PIPE, stderr=subprocess.PIPE, text=True, timeout=120, env=dict(os.environ, VERIF_NO_WARM="1"))
    if p.returncode != 0 or '"outcome":"ok"' not in p.stdout:
        if "ptrace" in p.stderr or "PTRACE" in p.stderr:
            ctx.inconclusive("strace: ptrace refused")
            return None
        ctx.violation("apply", dict(sub="apply_failed_under_strace"), dict(stdout=p.stdout[-500:], stderr=p.stderr[-300:]), files=[pf])
        return False
    touched = set()
    for line in open(log, errors="replace"):
        m = re.search(r'(openat|open|creat|unlink|unlinkat|mkdir|mkdirat|rename\w*|truncate|rmdir)\((?:(AT_FDCWD|\d+)(?:<([^>]*)>)?, )?"([^"]*)"(.*)', line)
        if not m:
            continue
        call, dfd, dpath, path, rest = m.groups()
        if dfd and dfd != "AT_FDCWD" and dpath and not path.startswith("/"):
            path = os.path.join(dpath, path)
        if call in ("openat", "open") and not re.search(r"O_WRONLY|O_RDWR|O_CREAT|O_TRUNC", rest):
            continue
        if "AT_REMOVEDIR" in rest:
            call = "rmdir"
        touched.add((call, path))
    ctx.stats.monitor["strace_events"] += len(touched)
    ctx.stats.classes["strace-run"] += 1
    bad = []
    allowed_files = set(model.touched) | set(model.files)
    for call, path in touched:
        ap = os.path.abspath(path)
        if ap == os.path.abspath(root):
            continue
        if not ap.startswith(os.path.abspath(root) + "/"):
            if ap.startswith("/proc/") or ap.startswith("/dev/") or ap.startswith("/sys/"):
                continue
            bad.append((call, path, "outside target directory"))
            continue
        rel = os.path.relpath(ap, root)
        if call.startswith("mkdir") or call == "rmdir":
            if rel not in model.required_dirs and rel not in model.optional_dirs and not any((rel + "/").startswith(pre) for pre in model.lenient_prefixes):
                bad.append((call, rel, "directory the model does not touch"))
        else:
            if rel not in allowed_files and rel not in model.lenient_files and not any(rel.startswith(pre) for pre in model.lenient_prefixes):
                bad.append((call, rel, "file the model does not touch"))
    if bad:
        ctx.violation("syscall", dict(sub="write_outside_model", what=bad[0][2]), dict(events=bad[:6]), files=[pf])
    return True


def rand_ops(rng, plat):
    pn = zp.PLATFORM_NAMES[plat]
    ops = []
    if rng.random() < 0.6:
        ops.append(dict(op="FHDR", version=rng.choice([2, 3])))
    if rng.random() < 0.4:
        ops.append(dict(op="APLY", option=rng.choice([1, 2]), value=rng.choice([0, 1])))
    ops.append(dict(op="T", platform=plat, region=rng.choice([-1, -1, 1])))
    targets = [(rng.choice([0, 2, 4, 0xA, 0x13]), (rng.choice([0, 0, 1, 3]) << 8) | rng.randrange(4), rng.randrange(8)) for _ in range(3)]
    fpaths = ["sqpack/ffxiv/0a0000.%s.index" % pn, "boot/ffxivboot.exe", "game/a/b/c/d.bin", "%02x%04x.%s.dat%d" % (targets[0][0], targets[0][1], pn, targets[0][2]), "top.txt",
              "sqpack/%s/%02x%04x.%s.dat%d" % (zp.exp_folder(targets[0][1]), targets[0][0], targets[0][1], pn, targets[0][2])]
    for _ in range(rng.randint(5, 60)):
        k = rng.random()
        main, sub, fid = rng.choice(targets)
        if k < 0.25:
            nb = rng.choice([1, 1, 2, 5, 20])
            ops.append(dict(op="A", main=main, sub=sub, fid=fid, off=rng.choice([0, 1, 2, 8, 50, 200]), data=rng.randbytes(128 * nb), dele=rng.choice([0, 0, 1, 10])))
        elif k < 0.35:
            ops.append(dict(op="E", main=main, sub=sub, fid=fid, off=rng.choice([0, 1, 7, 64]), n=rng.choice([1, 2, 16, 600])))
        elif k < 0.45:
            ops.append(dict(op="D", main=main, sub=sub, fid=fid, off=rng.choice([0, 1, 7, 64]), n=rng.choice([1, 2, 16, 600])))
        elif k < 0.55:
            fk = rng.choice([b"D", b"I"])
            ops.append(dict(op="H", fk=fk, hk=rng.choice([b"V", b"I", b"D"]), main=main, sub=sub, fid=fid if fk == b"D" else rng.choice([0, 0, 2]), data=rng.randbytes(1024)))
        elif k < 0.75:
            chunks = []
            for _ in range(rng.choice([0, 1, 1, 2, 4])):
                n = rng.choice([1, 15, 112, 113, 127, 128, 129, 1000, 15999, 16000, 16001, 20000, 31000])
                data = rng.randbytes(n) if rng.random() < 0.5 else bytes([rng.randrange(256)]) * n
                chunks.append((data, rng.random() < 0.5))
            ops.append(dict(op="FA", path=rng.choice(fpaths), offset=rng.choice([0, 0, 0, 100, 5000]), chunks=chunks))
        elif k < 0.82:
            ops.append(dict(op="FD", path=rng.choice(fpaths + ["nonexistent/file.bin"])))
        elif k < 0.86:
            ops.append(dict(op="FM", path=rng.choice(["newdir/sub/x", "sqpack/ex3/y", "z", "newdir2/", "sqpack/ex4/", "deep/er/still/"])))
        elif k < 0.88:
            ops.append(dict(op="FR", expansion=rng.choice([0, 1, 3])))
        elif k < 0.92:
            ops.append(dict(op="X", status=rng.randrange(3), version=rng.randrange(3), install_size=rng.getrandbits(40)))
        elif k < 0.93:
            # a further target-info chunk: what follows goes to the files of that platform
            plat = rng.choice([0, 1, 2, 3, 4])
            pn = zp.PLATFORM_NAMES[plat]
            ops.append(dict(op="T", platform=plat, region=rng.choice([-1, 1])))
        elif k < 0.96:
            ops.append(dict(op="I", cmd=rng.choice([b"A", b"D"]), synonym=rng.randrange(2), main=main, sub=sub, fid=0, hash=rng.getrandbits(64), off=rng.getrandbits(20), num=3))
        else:
            ops.append(dict(op=rng.choice(["ADIR", "DELD"]), name=rng.choice(["sqpack/ex4", "newdir", "a/b"])))
    ops.append(dict(op="EOF"))
    return ops


def far_offsets(ctx, rng):
    """commands addressing their target beyond 4 GiB: block offsets are 32-bit numbers of 128-byte units (up to 512 GiB) and the
    file command carries a 64-bit byte offset, so every position must be computed in 64 bits. The targets are sparse files; the
    apply runs in a one-shot worker without the file-size rlimit of the long-lived one."""
    plat = rng.choice([0, 1, 2])
    pn = zp.PLATFORM_NAMES[plat]
    B = 1 << 25     # first block whose byte offset needs more than 32 bits
    oa = rng.choice([B, B + 1, B + rng.randrange(1 << 20), 2 * B + 5, 5 * B + rng.randrange(1000)])
    oe = rng.choice([B, B + 7, 3 * B + rng.randrange(1000)])
    od = oa + rng.choice([16, 64])
    fo = rng.choice([1 << 32, (1 << 32) + 12345, (1 << 33) + rng.randrange(1 << 20), (1 << 36) + 1])
    ops = [dict(op="FHDR", version=3), dict(op="T", platform=plat),
           dict(op="A", main=0, sub=0, fid=0, off=oa, data=rng.randbytes(128 * rng.choice([1, 2, 5])), dele=rng.choice([0, 2])),
           dict(op="E", main=0, sub=0, fid=1, off=oe, n=rng.choice([1, 3, 16])),
           dict(op="D", main=0, sub=0, fid=0, off=od, n=rng.choice([1, 2])),
           dict(op="A", main=4, sub=0x0100, fid=2, off=oa - 1, data=rng.randbytes(256), dele=1),
           dict(op="FA", path="game/far.bin", offset=0, chunks=[(rng.randbytes(300), True)]),
           dict(op="FA", path="game/far.bin", offset=fo, chunks=[(rng.randbytes(rng.choice([1, 500, 20000])), rng.random() < 0.5), (b"tail" * 40, False)]),
           dict(op="H", fk=b"D", hk=b"V", main=0, sub=0, fid=0, data=rng.randbytes(1024)),
           dict(op="EOF")]
    rng.shuffle(ops[2:6])
    wire = zp.serialise(ops)
    pf = ctx.write("far.patch", wire)
    root = ctx.path("far-target")
    shutil.rmtree(root, ignore_errors=True)
    os.makedirs(os.path.join(root, "sqpack", "ffxiv"))
    os.makedirs(os.path.join(root, "sqpack", "ex1"))
    model = zp.Model({}, ["sqpack/ffxiv", "sqpack/ex1"], sparse=True)
    model.apply(ops)
    ctx.case(digest(wire), True, ["far-offsets", "platform:%s" % pn], sample=dict(block_offsets=[oa, oe, od], file_offset=fo, ops=[o["op"] for o in ops]))
    binary = build(ctx.variant)
    try:
        p = subprocess.run([binary, "--once", "zp.apply", root, pf], stdout=subprocess.PIPE, stderr=subprocess.PIPE, text=True, timeout=300, env=dict(os.environ, VERIF_NO_WARM="1"))
    except subprocess.TimeoutExpired:
        ctx.inconclusive("far-offset apply: watchdog")
        shutil.rmtree(root, ignore_errors=True)
        return
    if '"outcome":"ok"' not in p.stdout:
        if "No space left" in p.stdout + p.stderr or "File too large" in p.stdout + p.stderr:
            ctx.inconclusive("far-offset apply: file system refused the sparse target")
        else:
            ctx.violation("apply", dict(sub="apply_failed", where="offsets>=4GiB"), dict(stdout=p.stdout[-400:], stderr=p.stderr[-300:], ops=[describe(o) for o in ops]), files=[pf])
        shutil.rmtree(root, ignore_errors=True)
        return
    diffs = []
    seen = set()
    for r, ds, fs in os.walk(root):
        for f in fs:
            seen.add(os.path.relpath(os.path.join(r, f), root))
    for rel in sorted(seen - set(model.files)):
        diffs.append(("unexpected_file", rel))
    for rel, mf in model.files.items():
        path = os.path.join(root, rel)
        if rel not in seen:
            diffs.append(("missing_file", rel)); continue
        size = os.path.getsize(path)
        if size != mf.size:
            diffs.append(("size", "%s: %d bytes, expected %d" % (rel, size, mf.size)))
        with open(path, "rb") as fh:
            ext = mf.extents()
            for a, b in ext:
                fh.seek(a)
                if fh.read(b - a) != mf.read(a, b - a):
                    diffs.append(("content", "%s: bytes [%d, %d) differ" % (rel, a, b)))
            # everything that holds data on disk outside the modelled extents must be zero
            fd = fh.fileno()
            pos, budget = 0, 64 << 20
            while pos < size and budget > 0:
                try:
                    d0 = os.lseek(fd, pos, os.SEEK_DATA)
                except OSError:
                    break
                try:
                    d1 = os.lseek(fd, d0, os.SEEK_HOLE)
                except OSError:
                    d1 = size
                cur = d0
                while cur < d1 and budget > 0:
                    n = min(1 << 20, d1 - cur)
                    os.lseek(fd, cur, os.SEEK_SET)
                    got = os.read(fd, n)
                    budget -= len(got)
                    if got != mf.read(cur, len(got)):
                        diffs.append(("content", "%s: data near %d differs from the model" % (rel, cur)))
                        budget = 0
                    cur += max(1, len(got))
                pos = d1
            if budget <= 0 and not diffs:
                ctx.note("far-offset target holds more than 64 MiB of data on disk: zero check truncated")
    if diffs:
        ctx.violation("tree", dict(sub="tree_differs", diff="+".join(sorted({d[0] for d in diffs})), where="offsets>=4GiB"),
                      dict(diffs=diffs[:6], ops=[describe(o) for o in ops]), files=[pf])
    shutil.rmtree(root, ignore_errors=True)


def odd_pre_existing(ctx, rng):
    """pre-existing trees the commands do not expect: a regular file where an expansion folder would be (RemoveAll has nothing to
    remove there and succeeds), an empty expansion folder, a movie folder only"""
    plat = rng.choice([0, 1, 2])
    e = rng.choice([1, 2, 3])
    variants = [({"sqpack/ex%d" % e: b"a file, not a folder", "sqpack/ffxiv/keep.me": b"k"}, {"sqpack/ffxiv"}, "file-in-place-of-expansion-folder"),
                ({"sqpack/ffxiv/keep.me": b"k"}, {"sqpack/ffxiv", "sqpack/ex%d" % e}, "empty-expansion-folder"),
                ({"movie/ex%d/00001.bk2" % e: b"m", "sqpack/ffxiv/keep.me": b"k"}, {"sqpack/ffxiv"}, "movie-folder-only"),
                ({"sqpack/ffxiv/keep.me": b"k"}, {"sqpack/ffxiv"}, "expansion-folder-missing")]
    for files, dirs, label in variants:
        ops = [dict(op="T", platform=plat), dict(op="FR", expansion=e), dict(op="A", main=0, sub=0, fid=0, off=1, data=rng.randbytes(128), dele=0),
               dict(op="FA", path="after.txt", offset=0, chunks=[(b"the commands behind RemoveAll are carried out", False)]), dict(op="EOF")]
        run_patch_list(ctx, rng, [ops], files, dirs, ["odd-tree:" + label, "platform:%s" % zp.PLATFORM_NAMES[plat]], label=label)


def shard(ctx):
    rng, P = ctx.rng, ctx.params
    for _ in range(P.get("far", 1)):
        far_offsets(ctx, rng)
    odd_pre_existing(ctx, rng)
    # bounded-exhaustive part, sharded
    idx = 0
    for plat in (0, 1, 2):
        for L in range(1, P["maxlen"] + 1):
            for combo in itertools.product(range(12), repeat=L):
                idx += 1
                if idx % ctx.nshards != ctx.index:
                    continue
                if L == 3 and plat != 0 and (idx // ctx.nshards) % 3:
                    continue  # length-3 sequences: all for win32, a third for the others
                if L == 4 and (plat != 0 or (idx // ctx.nshards) % 2):
                    continue  # length-4 sequences: half of them, win32 only
                alpha = alphabet(rng, plat)
                ops = [dict(op="T", platform=plat)] + [alpha[i] for i in combo] + [dict(op="EOF")]
                files, dirs = pre_tree(rng, plat, rich=rng.random() < 0.6)
                if not dir_safe(ops, dirs):
                    continue
                run_patch_list(ctx, rng, [ops], files, dirs, ["exhaustive:len%d" % L, "platform:%s" % zp.PLATFORM_NAMES[plat]] + ["op:" + alpha[i]["op"] for i in combo],
                               label="alphabet %s" % (combo,))
    # random long sequences
    for i in range(P["nrand"]):
        plat = rng.choice([0, 0, 1, 2])
        ops = rand_ops(rng, plat)
        files, dirs = pre_tree(rng, plat, rich=True)
        dirs |= {"sqpack/ex3"}
        if not dir_safe(ops, dirs):
            ops = [o for o in ops if o["op"] != "D"]
        via = rng.choice(["zp.apply", "zp.apply", "gd.apply_patch", "boot.apply"])
        if plat == 0 and rng.random() < 0.3 and sum(1 for o in ops if o["op"] == "T") == 1:
            ops = [o for o in ops if o["op"] != "T"]        # no target-info chunk at all: the platform is win32 from the start
            ctx.stats.classes["no-target-info-chunk"] += 1
        run_patch_list(ctx, rng, [ops], files, dirs, ["random", "platform:%s" % zp.PLATFORM_NAMES[plat]] + sorted({"op:" + o["op"] for o in ops}), via=via, label="random",
                       use_strace=(i < P["strace"]))
    # chains
    for i in range(P["nchain"]):
        plat = rng.choice([0, 1, 2])
        patches = []
        files, dirs = pre_tree(rng, plat, rich=True)
        dirs |= {"sqpack/ex3"}
        for _ in range(rng.randint(2, 4)):
            ops = rand_ops(rng, plat)[:rng.randint(6, 25)] + [dict(op="EOF")]
            if not any(o["op"] == "T" for o in ops):
                ops.insert(0, dict(op="T", platform=plat))
            ops = [o for o in ops if o["op"] not in ("D", "FR")]
            patches.append(ops)
        run_patch_list(ctx, rng, patches, files, dirs, ["chain:%d" % len(patches), "platform:%s" % zp.PLATFORM_NAMES[plat]], label="chain")
