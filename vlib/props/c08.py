"""C08 - config and list text files survive parse/edit/write unchanged.

Monitor: model-equality monitor after every call. The Python model is the list of categories /
entries the generator produced; canonical text is rendered by Python from the documented grammar."""
import os
from ..core import digest

LEVEL = "exploration"
RULE = ("random configurations (0..12 distinct categories incl. empty ones, 0..8 key/value lines each, duplicate keys inside and across "
        "categories, empty keys/values, names over printable ASCII and multi-byte UTF-8 without < > TAB CR LF NUL) and lists (any i32 version, "
        "i32 ids incl. -1/0/min/max, comment rows, empty names); observations: parse(canonical)==model, write(parse(canonical))==canonical bytes, "
        "object built through pub fields -> write == canonical and parse(write(x)) == x, set_value histories (present / absent / duplicated keys) "
        "compared with the model after every call, has_key/has_category/contains for present and absent names. "
        "non-trivial = file with >= 2 categories or >= 1 duplicate key or >= 1 edit; distinct = digest of the canonical text + edits")
ASSUMPTIONS = ["canonical grammar as stated in the property: CRLF blocks '<cat>' + 'key TAB value', trailing NUL; 'EXLT,<v>' + LF-separated 'name,id' rows"]

ALPHA = "abcXYZ019 _-.:/\\!@#$%^&*()[]{}|;'\",?~`+=" + "éß日本語ñ€😀"
EXL_ALPHA = ALPHA.replace(",", "")


def plan(tier):
    if tier == "quick":
        return [("debug", 16, dict(ncfg=150, nexl=150, edits=10)), ("release", 2, dict(ncfg=100, nexl=100, edits=10))]
    return [("debug", 16, dict(ncfg=2500, nexl=2500, edits=14)), ("release", 4, dict(ncfg=600, nexl=600, edits=10))]


# text that looks like an escaped form of a structural character (entity, percent, backslash and caret notations): it is ordinary text
LOOKALIKES = ["&lt;", "&gt;", "&amp;", "&#60;", "&#x3E;", "&quot;", "&apos;", "&nbsp;", "%3C", "%3E", "%09", "%0D%0A", "\\t", "\\n", "\\r", "\\0", "\\x3c", "\\u003e", "^I", "^M", "&lt", "lt;"]


def word(rng, a, b, alpha=ALPHA):
    w = "".join(rng.choice(alpha) for _ in range(rng.randint(a, b)))
    if b >= 4 and b < 100 and rng.random() < 0.06:
        t = rng.choice(LOOKALIKES)
        i = rng.randint(0, len(w))
        w = (w[:i] + t + w[i:]) if rng.random() < 0.7 else t
    return w


def canon_cfg(cats):
    return ("".join("\r\n<%s>\r\n" % c + "".join("%s\t%s\r\n" % kv for kv in ks) for c, ks in cats) + "\0").encode("utf-8")


def cfg_model_dump(cats):
    return dict(categories=[c for c, _ in cats],
                settings=sorted(([c, [list(kv) for kv in ks]] for c, ks in cats if ks), key=lambda x: x[0].encode("utf-8")))


def dump_norm(d):
    return dict(categories=d["categories"], settings=sorted(([s["cat"], s["keys"]] for s in d["settings"]), key=lambda x: x[0].encode("utf-8")))


def gen_cfg(rng):
    cats = []
    names = set()
    pool = ["k1", "k2", "Key", ""] + [word(rng, 1, 6) for _ in range(3)]
    for _ in range(rng.randint(0, 12)):
        nm = word(rng, 0, 8) if rng.random() < 0.9 else rng.choice(["", " ", "Display Settings", "a b", word(rng, 1030, 1100)])
        if nm in names:
            continue
        names.add(nm)
        keys = [(rng.choice(pool) if rng.random() < 0.7 else word(rng, 0, 8), word(rng, 0, 10)) for _ in range(rng.choice([0, 0, 1, 2, 3, 5, 8]))]
        if keys and rng.random() < 0.08:
            # there is no limit on the length of a line
            i = rng.randrange(len(keys))
            keys[i] = (keys[i][0] if rng.random() < 0.5 else word(rng, 1000, 1300), word(rng, 1020, 5000))
        cats.append((nm, keys))
    return cats


def shard(ctx):
    rng, P = ctx.rng, ctx.params
    # a bystander handle stays alive while every other handle of the shard is parsed, edited and dropped: what it writes must never change
    by_cats = gen_cfg(rng) or [("Bystander", [("k", "v")])]
    by_canon = canon_cfg(by_cats)
    bf = ctx.write("bystander.cfg", by_canon)
    br = ctx.call("cfg.parse", bf, input_bytes=len(by_canon))
    bh = br.value["handle"] if br.ok else None
    for i in range(P["ncfg"]):
        if rng.random() < 0.08:
            failing_parse_first(ctx, rng)
        cfg_case(ctx, rng, P["edits"])
        if bh is not None and i % 10 == 9:
            bout = ctx.path("bystander.out")
            r = ctx.call("cfg.write", bh, bout)
            ctx.case(("bystander", i), True, ["cfg-bystander"])
            if r.ok:
                eq(ctx, "cfg_bystander_changed", ctx.read("bystander.out"), by_canon, [bf])
    if bh is not None:
        ctx.call("drop", bh)
    for i in range(P["nexl"]):
        if rng.random() < 0.08:
            failing_parse_first(ctx, rng)
        exl_case(ctx, rng)


def failing_parse_first(ctx, rng):
    """a parse of something that is no list / configuration at all (bytes that are not UTF-8, a cut-off row, binary data), in the same
    process right before the case under test: nothing of it may carry over (a row buffer, a category in progress)"""
    k = rng.random()
    if k < 0.4:
        data = rng.randbytes(rng.choice([1, 30, 300, 5000]))
    elif k < 0.7:
        data = b"EXLT,2\nItem,1\nQuest\xff\xfe,2\nLevel,3\n" + rng.randbytes(8)
    else:
        data = "\r\n<Cat>\r\nKey\tVal\r\n<Open".encode() + bytes([0xC3]) + rng.randbytes(3)
    f = ctx.write("garbage.bin", data)
    for verb in rng.sample(["exl.parse", "cfg.parse"], rng.choice([1, 2])):
        r = ctx.call(verb, f, input_bytes=len(data))
        if r.ok and isinstance(r.value, dict) and r.value.get("handle") is not None:
            ctx.call("drop", r.value["handle"])
        ctx.stats.monitor["failing_parse_first:%s:%s" % (verb, r.outcome.split(":")[0])] += 1
    ctx.stats.classes["history:after-a-failed-parse"] += 1


def eq(ctx, sub, got, exp, files, cls=None):
    if got != exp:
        sig = dict(sub=sub)
        if cls:
            sig["cls"] = cls
        ctx.violation("model", sig, dict(got=repr(got)[:1500], expected=repr(exp)[:1500]), files=files)
        return False
    return True


def cfg_case(ctx, rng, max_edits):
    cats = gen_cfg(rng)
    canon = canon_cfg(cats)
    f = ctx.write("t.cfg", canon)
    allkeys = [k for _, ks in cats for k, _ in ks]
    dup = len(allkeys) != len(set(allkeys))
    nedits = rng.randint(0, max_edits)
    key = digest(canon, nedits, rng.random())
    classes = ["cfg", "cfg-cats:%d" % min(len(cats), 6)] + (["cfg-dupkeys"] if dup else []) + (["cfg-emptycat"] if any(not ks for _, ks in cats) else [])
    ctx.case(key, len(cats) >= 2 or dup or nedits > 0, classes, sample=dict(canonical=canon.decode("utf-8")[:200], edits=nedits))
    rec = ctx.call("cfg.parse", f, input_bytes=len(canon))
    if not ctx.check_mon(rec, len(canon), residual=False, files=[f]):
        return
    if not rec.ok:
        ctx.violation("model", dict(sub="cfg_parse_failed"), dict(outcome=rec.outcome), files=[f])
        return
    h = rec.value["handle"]
    eq(ctx, "cfg_parse", dump_norm(rec.value["cfg"]), cfg_model_dump(cats), [f])
    # write(parse(canonical)) == canonical
    out = ctx.path("t.cfg.out")
    r2 = ctx.call("cfg.write", h, out)
    ctx.check_mon(r2, len(canon), files=[f])
    if r2.ok:
        eq(ctx, "cfg_rewrite_bytes", ctx.read("t.cfg.out"), canon, [f])
    # queries
    model = [(c, [list(kv) for kv in ks]) for c, ks in cats]
    queries(ctx, h, model, rng, [f])
    # edit history on the live handle
    hist = []
    for _ in range(nedits):
        m = rng.random()
        if allkeys and m < 0.7:
            k = rng.choice(allkeys)
        elif m < 0.85:
            k = word(rng, 1, 6) + "~absent"
        else:
            k = rng.choice([c for c, _ in cats] or ["x"])  # a category name used as key
        v = word(rng, 0, 10)
        hist.append((k, v))
        r = ctx.call("cfg.set", h, k, v)
        if not ctx.check_mon(r, len(canon), residual=False, files=[f]) or not r.ok:
            break
        for _, ks in model:
            for kv in ks:
                if kv[0] == k:
                    kv[1] = v
        exp = dict(categories=[c for c, _ in model], settings=sorted(([c, ks] for c, ks in model if ks), key=lambda x: x[0].encode("utf-8")))
        if not eq(ctx, "cfg_set_value", dump_norm(r.value), exp, [f]):
            ctx.stats.samples.append(dict(history=hist[-5:]))
            break
        ctx.stats.classes["cfg-edit:%s" % ("present" if k in allkeys else "absent")] += 1
    if nedits:
        r3 = ctx.call("cfg.write", h, out)
        if r3.ok:
            eq(ctx, "cfg_write_after_edits", ctx.read("t.cfg.out"), canon_cfg([(c, [tuple(kv) for kv in ks]) for c, ks in model]), [f])
        queries(ctx, h, model, rng, [f])
    ctx.call("drop", h)
    # object built through the pub fields -> write -> canonical, and parse(write(x)) == x
    spec = "".join("C %s\n" % c.encode("utf-8").hex() + "".join("K %s %s\n" % (k.encode("utf-8").hex(), v.encode("utf-8").hex()) for k, v in ks) for c, ks in cats)
    sf = ctx.write("t.cfg.spec", spec.encode())
    rb = ctx.call("cfg.build", sf)
    if rb.ok:
        hb = rb.value["handle"]
        rw = ctx.call("cfg.write", hb, out)
        ctx.check_mon(rw, len(canon), files=[sf])
        if rw.ok:
            written = ctx.read("t.cfg.out")
            eq(ctx, "cfg_write_built", written, canon, [sf])
            rp = ctx.call("cfg.parse", out, input_bytes=len(written))
            if rp.ok:
                eq(ctx, "cfg_parse_of_written", dump_norm(rp.value["cfg"]), cfg_model_dump(cats), [sf])
                ctx.call("drop", rp.value["handle"])
        ctx.call("drop", hb)


def queries(ctx, h, model, rng, files):
    keys = {k for _, ks in model for k, _ in ks}
    catnames = [c for c, _ in model]
    near = []
    for k in list(keys)[:4]:
        near += [k.swapcase(), k.upper(), k.lower(), k + " ", " " + k, k[:-1], k + k[-1:]]
    probes = list(keys)[:6] + [word(rng, 1, 5) + "?" for _ in range(2)] + catnames[:2] + near
    for k in probes:
        r = ctx.call("cfg.has_key", h, k)
        if r.ok:
            eq(ctx, "cfg_has_key", r.value, k in keys, files)
    nearc = []
    for c in catnames[:3]:
        nearc += [c.swapcase(), c.upper(), c + " ", c[:-1], "<" + c + ">"]
    for c in catnames[:8] + [word(rng, 1, 5) + "?absent"] + list(keys)[:1] + nearc:
        r = ctx.call("cfg.has_category", h, c)
        if r.ok:
            empty = any(cc == c and not ks for cc, ks in model)
            eq(ctx, "cfg_has_category", r.value, c in catnames, files, cls="empty-category" if empty else "other")


def canon_exl(ver, ents):
    return ("EXLT,%d" % ver + "".join("\n%s,%d" % e for e in ents)).encode("utf-8")


def exl_case(ctx, rng):
    I = [0, 1, -1, 5, 2 ** 31 - 1, -2 ** 31, 100000]
    ver = rng.choice(I + [rng.randint(-10 ** 6, 10 ** 6)])
    ents = []
    for _ in range(rng.choice([0, 1, 2, 5, 9, 30])):
        n = word(rng, 0, 12, EXL_ALPHA)
        if rng.random() < 0.15:
            # names next to the structural ones
            n = rng.choice(["EXLTest", "EXLT2", "exlt", "EXL", "xEXLT", "a#b", "trailing#", "Item ", " Item", "quest/000/ClsHrv001_00003", "quest//000", "a///b", "/lead", "trail/", "./x", "A/../B",
                            "+5", "0x10", word(rng, 1030, 1100, EXL_ALPHA)])
        if n == "EXLT" or n.startswith("#"):
            n = "x" + n
        ents.append((n, rng.choice(I + [rng.randint(-2 ** 31, 2 ** 31 - 1)])))
    if rng.random() < 0.3:
        ents.append(rng.choice(ents) if ents else ("dup", 1))
    canon = canon_exl(ver, ents)
    f = ctx.write("t.exl", canon)
    ctx.case(digest(canon), len(ents) >= 1, ["exl", "exl-n:%d" % min(len(ents), 10)], sample=dict(canonical=canon.decode("utf-8")[:120]))
    model = dict(version=ver, entries=[[a, b] for a, b in ents])
    rec = ctx.call("exl.parse", f, input_bytes=len(canon))
    if not ctx.check_mon(rec, len(canon), residual=False, files=[f]):
        return
    if not rec.ok:
        ctx.violation("model", dict(sub="exl_parse_failed"), dict(outcome=rec.outcome), files=[f])
        return
    h = rec.value["handle"]
    eq(ctx, "exl_parse", rec.value["exl"], model, [f])
    out = ctx.path("t.exl.out")
    r2 = ctx.call("exl.write", h, out)
    ctx.check_mon(r2, len(canon), files=[f])
    if r2.ok:
        eq(ctx, "exl_rewrite_bytes", ctx.read("t.exl.out"), canon, [f])
    names = {a for a, _ in ents}
    nearn = []
    for k in list(names)[:3]:
        nearn += [k.swapcase(), k.upper(), k + " ", k[:-1], k + "x"]
    for k in list(names)[:5] + [word(rng, 1, 6, EXL_ALPHA) + "?absent", "EXLT"] + nearn:
        r = ctx.call("exl.contains", h, k)
        if r.ok:
            eq(ctx, "exl_contains", r.value, k in names, [f])
    ctx.call("drop", h)
    # with comment rows and CRLF line ends: comments are ignored, rows survive
    if rng.random() < 0.5:
        rows = ["EXLT,%d" % ver]
        for a, b in ents:
            if rng.random() < 0.3:
                rows.append(rng.choice(["#comment,1", "# just text", "#%s,%d" % (a, b)]))
            rows.append("%s,%d" % (a, b))
        sep = rng.choice(["\n", "\r\n"])
        text = sep.join(rows).encode("utf-8") + rng.choice([b"", sep.encode()])
        fc = ctx.write("t2.exl", text)
        rc = ctx.call("exl.parse", fc, input_bytes=len(text))
        ctx.check_mon(rc, len(text), residual=False, files=[fc])
        ctx.case(digest(text), True, ["exl-comments", "exl-sep:%r" % sep])
        if rc.ok:
            eq(ctx, "exl_parse_comments", rc.value["exl"], model, [fc])
            ctx.call("drop", rc.value["handle"])
    # built through pub fields
    spec = "%d\n" % ver + "".join("%s %d\n" % (a.encode("utf-8").hex() or "-", b) for a, b in ents)
    if all(a for a, _ in ents):
        sf = ctx.write("t.exl.spec", spec.encode())
        rb = ctx.call("exl.build", sf)
        if rb.ok:
            hb = rb.value["handle"]
            rw = ctx.call("exl.write", hb, out)
            if rw.ok:
                w = ctx.read("t.exl.out")
                eq(ctx, "exl_write_built", w, canon, [sf])
                rp = ctx.call("exl.parse", out, input_bytes=len(w))
                if rp.ok:
                    eq(ctx, "exl_parse_of_written", rp.value["exl"], model, [sf])
                    ctx.call("drop", rp.value["handle"])
            ctx.call("drop", hb)
