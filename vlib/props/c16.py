"""C16 - auxiliary asset decoders return the stored records.

Monitor: reference-model monitor; ground truth = values planted by independent builders (SKLB +
Havok binary tag file writer, PBD, CMP, TERA, LGB); round trips through the library's writers."""
import os, struct
from ..core import digest, REPO
from ..fmt import havok, assets

LEVEL = "exploration"
RULE = ("skeletons: both container versions, 1..200 bones, arbitrary hierarchy and pose bit patterns, tag files with extra unused types, members in shuffled order, optional "
        "members present/absent, multi-byte and negative packed ints, string back-references, extra variants; deformers: random forests of 1..12 body ids with 0..5 bones each, "
        "permuted link tables, queries between every pair of body ids whose start node has a sibling link (expected chain on the Python forest); scaling tables of 0..40 rows + "
        "trailing partial row; terrains on the 128 grid (+-32767) parsed, re-written byte-identically and written from plates; empty layer groups with arbitrary ids / ASCII names "
        "written by the library, parsed back and compared with the canonical bytes. non-trivial = skeleton with >= 2 bones / deformer query with a chain of >= 1 body / table with >= 1 row / "
        "terrain with >= 1 plate / any layer group; distinct = digest of the generated file")
ASSUMPTIONS = ["Havok binary tag file format v3 as read by the reference readers; PBD/CMP/TERA/LGB layouts as documented; the no-sibling PBD query is outside the domain"]


def plan(tier):
    if tier == "quick":
        return [("debug", 16, dict(n=25)), ("release", 4, dict(n=15)), ("asan", 2, dict(n=8))]
    return [("debug", 16, dict(n=1200)), ("release", 8, dict(n=500)), ("asan", 4, dict(n=120)), ("memcheck", 2, dict(n=6))]


NAME = "abcdefghijklmnopqrstuvwxyz_0123456789"


def nm(rng, a=1, b=12):
    return "".join(rng.choice(NAME) for _ in range(rng.randint(a, b)))


def fbits(rng):
    return rng.choice([0, 0x3F800000, 0xBF800000, 0x80000000, 0x7F800000, 0x7FC00001, 0x00000001, rng.getrandbits(32), rng.getrandbits(32), rng.getrandbits(32)])


def feq(g, e):
    nan = lambda b: (b & 0x7F800000) == 0x7F800000 and (b & 0x7FFFFF) != 0
    return g == e or (nan(g) and nan(e))


def shard(ctx):
    rng, P = ctx.rng, ctx.params
    from .. import faults, seeds
    fr = __import__("random").Random("c16-failing-%d-%d" % (ctx.seed, ctx.index))
    # skeletons: cut short only (garbled Havok payloads reach the listed abort findings of C18 and would take the worker down)
    bads = [ctx.write("failing-%d.sklb" % i, data[:fr.randrange(8, len(data))]) for i, (_, data, _) in enumerate(seeds.seeds_sklb(fr)[:3])]
    badp = [ctx.write("failing-%d.pbd" % i, d) for i, d in enumerate(x for _, data, _ in seeds.seeds_pbd(fr)[:2] for x in faults.damaged_variants(fr, data, 3))]
    ctx.failing_calls_first([("sklb.parse", (b,)) for b in bads] + [("pbd.parse", (b,)) for b in badp], before=("sklb.parse", "pbd.parse", "cmp.parse", "tera.parse", "lgb.parse"), rate=0.05)
    if ctx.index == 0:
        sample_lgb(ctx)
    for _ in range(P["n"]):
        sklb_case(ctx, rng)
        pbd_case(ctx, rng)
        cmp_case(ctx, rng)
        tera_case(ctx, rng)
        lgb_case(ctx, rng)


def sklb_case(ctx, rng):
    n = rng.choice([1, 2, 3, 7, 30, 200]) if rng.random() < 0.8 else rng.randint(1, 200)
    names = []
    used = set()
    while len(names) < n:
        x = rng.choice(["j_", "n_", "iv_", ""]) + nm(rng)
        if rng.random() < 0.08:
            x += rng.choice(["\u9aa8", "\u00e9", "\u00df\u0130", "\U0001d11e", "\u00ff"])      # names are UTF-8 strings
        if x not in used and x not in ("string", ""):
            used.add(x); names.append(x)
    bones = [(names[i], -1 if i == 0 or rng.random() < 0.1 else rng.randrange(i)) for i in range(n)]
    poses = [[fbits(rng) for _ in range(12)] for _ in range(n)]
    ver = rng.choice([1, 2])
    tag = havok.build_skeleton_tagfile(rng, bones, poses, extra=rng.random() < 0.8)
    # payload offsets across the 16-bit boundary: the old container stores it in 16 bits, the new one in 32
    gap = None
    if rng.random() < 0.2:
        gap = rng.choice([65535 - 28, 65000, 30000]) if ver == 1 else rng.choice([65535 - 36, 65536 - 36, 65536, 70000, 200000, (1 << 20) + 4])
    data = havok.build_sklb(ver, tag, rng, gap)
    f = ctx.write("s.sklb", data)
    ctx.case(digest(data), n >= 2, ["sklb", "sklb-container:v%d" % ver, "sklb-bones:%s" % bucket(n), "sklb-payload-offset:%s" % ("<64KiB" if len(data) - len(tag) < 65536 else ">=64KiB")], sample=dict(bones=n, container=ver, first=bones[:3]))
    rec = ctx.call("sklb.parse", f, input_bytes=len(data))
    if not ctx.check_mon(rec, len(data), files=[f]):
        return
    if rec.outcome == "none":
        ctx.violation("decode", dict(sub="valid_skeleton_rejected", container=ver), {}, files=[f])
        return
    got = rec.value
    if len(got) != n:
        ctx.violation("decode", dict(sub="bone_count"), dict(got=len(got), expected=n), files=[f])
        return
    for i, (g, (name, parent), pose) in enumerate(zip(got, bones, poses)):
        bad = {}
        if g["name"] != name:
            bad["name"] = (g["name"], name)
        if g["parent"] != parent:
            bad["parent"] = (g["parent"], parent)
        if not all(feq(a, b) for a, b in zip(g["pos"], pose[0:3])):
            bad["position"] = (g["pos"], pose[0:3])
        if not all(feq(a, b) for a, b in zip(g["rot"], pose[4:8])):
            bad["rotation"] = (g["rot"], pose[4:8])
        if not all(feq(a, b) for a, b in zip(g["scale"], pose[8:11])):
            bad["scale"] = (g["scale"], pose[8:11])
        if bad:
            ctx.violation("decode", dict(sub="bone_fields", fields=",".join(sorted(bad))), dict(bone=i, bad=repr(bad)[:600]), files=[f])
            break


def pbd_case(ctx, rng):
    n = rng.choice([1, 2, 3, 5, 8, 12])
    large = rng.random() < 0.06
    if large:
        n = rng.choice([130, 300])
        bodies = rng.sample(range(65536), n)
    else:
        bodies = rng.sample([101, 201, 301, 401, 501, 601, 701, 801, 901, 1001, 1101, 1201, 1301, 1401, 9104, 9204, 65535, 0], n)
    parent = {}
    for i, b in enumerate(bodies):
        parent[b] = -1 if i == 0 or rng.random() < 0.2 else bodies[rng.randrange(i)]
    bones = {}
    for b in bodies:
        names = []
        for k in range(rng.choice([0, 1, 2, 3, 5]) if not (large and b == bodies[0]) else rng.choice([129, 700])):
            names.append((("j_%s_%d" % (nm(rng, 1, 8), k)).encode(), [fbits(rng) for _ in range(12)]))
        bones[b] = names
    perm = list(range(n))
    if rng.random() < 0.5:
        rng.shuffle(perm)
    # blocks are located by their offsets alone: 4-aligned (as the game's files), packed back to back, or behind a lead-in of any length
    align = rng.choice([4, 4, 2, 1])
    lead = rng.randbytes(rng.choice([0, 0, 1, 2, 3, 7])) if align != 4 or rng.random() < 0.3 else b""
    data = assets.build_pbd(bodies, parent, bones, perm, align, lead)
    f = ctx.write("p.pbd", data)
    rec = ctx.call("pbd.parse", f, input_bytes=len(data))
    if not ctx.check_mon(rec, len(data), residual=False, files=[f]):
        return
    if rec.outcome == "none":
        ctx.case(digest(data), True, ["pbd"])
        ctx.violation("decode", dict(sub="valid_deformer_rejected"), dict(bodies=bodies), files=[f])
        return
    h = rec.value["handle"]
    absent = next(x for x in (4242, 4244, 4246) if x not in bodies)
    pairs = [(frm, to) for frm in bodies for to in bodies + [absent]]
    if len(pairs) > 200:
        pairs = rng.sample(pairs, 120) + [(bodies[0], absent), (bodies[-1], absent)] + [(bodies[i], bodies[0]) for i in range(1, 20)]
    for frm, to in pairs:
        if True:
            if frm == to:
                continue
            if not assets.pbd_has_next_sibling(bodies, parent, frm):
                continue  # undocumented, unconstrained
            chain = assets.pbd_expected_chain(bodies, parent, frm, to)
            exp = [(nmb.decode(), m) for b in chain for nmb, m in bones[b]]
            r = ctx.call("pbd.deform", h, frm, to, input_bytes=len(data))
            ctx.check_mon(r, len(data), files=[f])
            ctx.case(digest(data, frm, to), len(chain) >= 1, ["pbd", "pbd-chain:%d" % min(len(chain), 4), "pbd-blocks:%s" % ("aligned" if align == 4 and len(lead) % 4 == 0 else "unaligned"), "pbd-bodies:%s" % bucket(n), "pbd-to:%s" % ("ancestor" if to in chain or parent.get(chain[-1]) == to else "other")],
                     sample=dict(bodies=bodies, parents=parent, query=(frm, to), chain=chain))
            if r.outcome == "none":
                ctx.violation("decode", dict(sub="deform_none"), dict(query=(frm, to), chain=chain, parents=parent), files=[f])
            elif r.ok:
                got = [(x["name"], x["m"]) for x in r.value]
                ok = len(got) == len(exp) and all(g[0] == e[0] and all(feq(a, b) for a, b in zip(g[1], e[1])) for g, e in zip(got, exp))
                if not ok:
                    ctx.violation("decode", dict(sub="deform_chain"), dict(query=(frm, to), chain=chain, parents=parent, got_names=[g[0] for g in got][:12], expected_names=[e[0] for e in exp][:12]), files=[f])
    # same body / unknown body -> nothing
    r = ctx.call("pbd.deform", h, bodies[0], bodies[0])
    if r.ok:
        ctx.violation("decode", dict(sub="deform_same_body"), {}, files=[f])
    r = ctx.call("pbd.deform", h, next(x for x in (4243, 4245, 4247) if x not in bodies), bodies[0])
    if r.ok:
        ctx.violation("decode", dict(sub="deform_unknown_body"), {}, files=[f])
    # the same queries from several threads that share the one deformer object
    qs = [(a_, b_) for a_, b_ in pairs if a_ != b_ and assets.pbd_has_next_sibling(bodies, parent, a_)][:25]
    if qs and n <= 60:
        ctx.shared_between_threads(["pbd.deform %d %d %d" % (h, a_, b_) for a_, b_ in qs], "pbd-queries", reps=8, files=[f])
    ctx.call("drop", h)


def cmp_case(ctx, rng):
    rows = [[fbits(rng) for _ in range(14)] for _ in range(rng.choice([0, 1, 3, 10, 40]))]
    tail = rng.randbytes(rng.choice([0, 0, 1, 55]))
    head = bytes(0x2A800) if rng.random() < 0.7 else rng.randbytes(0x2A800)
    data = assets.build_cmp(rows, head, tail)
    f = ctx.write("c.cmp", data)
    ctx.case(digest(data), len(rows) >= 1, ["cmp", "cmp-rows:%s" % bucket(len(rows)), "cmp-tail:%d" % (1 if tail else 0)], sample=dict(rows=len(rows), tail=len(tail)))
    rec = ctx.call("cmp.parse", f, input_bytes=len(data))
    if not ctx.check_mon(rec, len(data), files=[f]):
        return
    if rec.outcome == "none":
        ctx.violation("decode", dict(sub="valid_cmp_rejected"), dict(rows=len(rows), tail=len(tail)), files=[f])
    elif rec.ok:
        got = rec.value
        if len(got) != len(rows) or not all(all(feq(a, b) for a, b in zip(g, e)) for g, e in zip(got, rows)):
            ctx.violation("decode", dict(sub="cmp_rows"), dict(got_rows=len(got), expected_rows=len(rows)), files=[f])


def f32(x):
    return struct.unpack("<I", struct.pack("<f", x))[0]


def tera_case(ctx, rng):
    pos = [(rng.choice([0, 1, -1, 32767, -32768, rng.randint(-32768, 32767)]), rng.choice([0, -1, 32767, -32768, rng.randint(-32768, 32767)])) for _ in range(rng.choice([0, 1, 2, 9, 100] + ([999, 1000, 1001, 1500, 10001] if rng.random() < 0.25 else [])))]
    canonical = rng.random() < 0.6
    if canonical:
        data = assets.build_tera(pos)
        ps = 128
    else:
        ps = rng.choice([1, 128, 256, 1000, 2 ** 24 + 1, 2 ** 32 - 1])
        data = assets.build_tera(pos, version=rng.getrandbits(32), plate_size=ps, clip=rng.random() * 100, unknown=rng.random())
    f = ctx.write("t.tera", data)
    out = ctx.path("t.tera.out")
    ctx.case(digest(data), len(pos) >= 1, ["tera", "tera-plates:%s" % bucket(len(pos)), "tera-canonical:%d" % canonical], sample=dict(plates=pos[:3], plate_size=ps))
    rec = ctx.call("tera.parse", f, out, input_bytes=len(data))
    if not ctx.check_mon(rec, len(data), files=[f]):
        return
    if rec.outcome == "none":
        ctx.violation("decode", dict(sub="valid_terrain_rejected"), {}, files=[f])
        return
    psf = struct.unpack("<f", struct.pack("<f", float(ps)))[0]
    exp = [dict(x=f32(psf * (x + 0.5)), y=f32(psf * (y + 0.5)), filename="%04d.mdl" % i) for i, (x, y) in enumerate(pos)]
    if rec.value["plates"] != exp:
        ctx.violation("decode", dict(sub="terrain_plates", canonical=canonical), dict(got=rec.value["plates"][:3], expected=exp[:3]), files=[f])
    if canonical and rec.value["rewrite_eq"] is not True:
        ctx.violation("decode", dict(sub="terrain_rewrite"), {}, files=[f])
    # written from plates by the library, parsed back
    if canonical:
        spec = "".join("%d %d %s\n" % (e["x"], e["y"], e["filename"].encode().hex()) for e in exp)
        sf = ctx.write("t.spec", spec.encode())
        r2 = ctx.call("tera.write", sf, out)
        ctx.check_mon(r2, len(spec), files=[sf])
        if r2.ok:
            w = ctx.read("t.tera.out")
            if w != data:
                ctx.violation("decode", dict(sub="terrain_written_bytes"), dict(got=w[:80].hex(), expected=data[:80].hex()), files=[sf])
            fo = ctx.write("t2.tera", w)
            r3 = ctx.call("tera.parse", fo, input_bytes=len(w))
            if r3.ok and r3.value["plates"] != exp:
                ctx.violation("decode", dict(sub="terrain_roundtrip"), dict(got=r3.value["plates"][:3], expected=exp[:3]), files=[sf])


def lgb_case(ctx, rng):
    file_id = rng.choice([0x3142474C, rng.getrandbits(32)])
    chunk_id = rng.choice([0x3150474C, rng.getrandbits(32)])
    lgid = rng.choice([0, 1, 261, -1, 2 ** 31 - 1, -2 ** 31, rng.randint(-2 ** 31, 2 ** 31 - 1)])
    name = rng.choice(["PlanLive", "", "bg", nm(rng, 1, 40), "Name With Spaces 123"]).encode()
    out = ctx.path("l.lgb")
    ctx.case(digest(file_id, chunk_id, lgid, name), True, ["lgb", "lgb-name:%s" % bucket(len(name))], sample=dict(file_id=file_id, chunk_id=chunk_id, layer_group_id=lgid, name=name.decode()))
    r = ctx.call("lgb.write", file_id, chunk_id, lgid, name.hex() or "-", out)
    if not ctx.check_mon(r, 1024):
        return
    if not r.ok:
        ctx.violation("decode", dict(sub="lgb_write_failed"), dict(outcome=r.outcome))
        return
    w = ctx.read("l.lgb")
    canon = assets.build_empty_lgb(file_id, chunk_id, lgid, name)
    if w != canon:
        ctx.violation("decode", dict(sub="lgb_written_bytes"), dict(got=w.hex(), expected=canon.hex()))
    r2 = ctx.call("lgb.parse", out, input_bytes=len(w))
    ctx.check_mon(r2, len(w), files=[out])
    exp = dict(file_id=file_id, chunks=[dict(chunk_id=chunk_id, layer_group_id=lgid, name=name.decode(), layers=0, objects=0)])
    if r2.outcome == "none" or (r2.ok and r2.value != exp):
        ctx.violation("decode", dict(sub="lgb_roundtrip"), dict(got=r2.value, expected=exp), files=[out])
    # independent builder -> library
    f = ctx.write("l2.lgb", canon)
    r3 = ctx.call("lgb.parse", f, input_bytes=len(canon))
    ctx.check_mon(r3, len(canon), files=[f])
    if r3.outcome == "none" or (r3.ok and r3.value != exp):
        ctx.violation("decode", dict(sub="lgb_parse"), dict(got=r3.value, expected=exp), files=[f])


def sample_lgb(ctx):
    p = os.path.join(REPO, "resources/tests/empty_planlive.lgb")
    b = open(p, "rb").read()
    d = assets.parse_empty_lgb(b)
    assert assets.build_empty_lgb(d["file_id"], d["chunk_id"], d["layer_group_id"], d["name"]) == b, "python LGB builder does not reproduce the sample"
    r = ctx.call("lgb.parse", p, input_bytes=len(b))
    ctx.case("sample-lgb", True, ["lgb-sample"])
    exp = dict(file_id=d["file_id"], chunks=[dict(chunk_id=d["chunk_id"], layer_group_id=d["layer_group_id"], name=d["name"].decode(), layers=0, objects=0)])
    if not r.ok or r.value != exp:
        ctx.violation("decode", dict(sub="lgb_sample"), dict(got=r.value, expected=exp))


def bucket(n):
    for b in (0, 1, 2, 8, 40, 100, 1000, 10000):
        if n <= b:
            return "<=%d" % b
    return ">10000"
