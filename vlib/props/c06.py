"""C06 - model parsing yields the stored geometry for every vertex layout.

Monitor: reference-model monitor; an independent Python MDL builder plants random buffers and
typed reference decoders (vlib/fmt/mdl.py) state what each vertex component must decode to."""
import os, struct
from ..core import digest
from ..fmt import mdl

LEVEL = "exploration"
RULE = ("random models: versions 5 and 6, 1..3 LODs, 1..4 meshes per LOD, declarations drawn from every reader-supported (usage,type) pair over 1..3 streams with random element "
        "offsets and strides, random vertex / index buffer bytes, sub-mesh splits, material / bone / attribute names, bone tables (fixed 64-entry v5, counted v6), shapes on meshes with "
        "start_index 0, element ids, padding, vertex streams laid out in shuffled order with unused bytes between them, declarations filled to all 16 slots, terrain-shadow mesh / sub-mesh tables, v6 bone tables of up to 300 entries, up to 257 bones; pattern sweeps enumerating all 65536 half patterns and all 256 byte values in every component position. Oracle: per-component accept sets "
        "(IEEE half exact, f32 by bits, bytes, u8/255 within 1 ulp; documented leniencies for BiTangent / BlendWeights Byte4,UShort4 / BlendIndices UShort4 / Tangent), index lists, sub-mesh "
        "ranges, raw streams, names, shape morph deltas. non-trivial = model with >= 2 meshes or >= 2 streams or a shape; distinct = digest of the file")
ASSUMPTIONS = ["MDL layout as documented (Lumina/Penumbra/TexTools); v6 bone-table / bone-map layout as the reader implements it (validated by probe)",
               "shapes only generated on meshes whose start_index is 0 (relative vs absolute base index is unsettled)"]

NAMES = ["/mt_c0201e0038_top_a.mtrl", "/mt_c0201b0001_a.mtrl", "mat_b.mtrl", "j_kosi", "n_root", "j_sebo_a", "j_ude_a_l", "shp_hiz", "shp_kos", "atr_tv_a", "atr_arm", "bgcommon/x.mtrl"]


def plan(tier):
    if tier == "quick":
        return [("debug", 16, dict(n=60, maxv=2000, sweep="small")), ("release", 4, dict(n=40, maxv=2000, sweep="none")), ("asan", 2, dict(n=12, maxv=1000, sweep="none"))]
    return [("debug", 16, dict(n=450, maxv=65535, sweep="full")), ("release", 8, dict(n=250, maxv=20000, sweep="none")), ("asan", 4, dict(n=50, maxv=3000, sweep="none")),
            ("memcheck", 4, dict(n=12, maxv=600, sweep="none"))]


def gen_decl(rng, nstreams, pairs=None, need_position=None, fill=0):
    pairs = pairs or mdl.READER_PAIRS
    by_usage = {}
    for u, t in pairs:
        by_usage.setdefault(u, []).append(t)
    usages = [u for u in by_usage if rng.random() < 0.6]
    if mdl.POSITION not in usages and (rng.random() < 0.8 or need_position):
        usages.append(mdl.POSITION)
    if not usages:
        usages = [rng.choice(list(by_usage))]
    rng.shuffle(usages)
    cursor = [0, 0, 0]
    els = []
    for u in usages:
        t = rng.choice(by_usage[u]) if not (need_position and u == mdl.POSITION) else rng.choice(need_position)
        s = rng.randrange(nstreams)
        cursor[s] += rng.choice([0, 0, 0, 1, 4])
        if els and nstreams > 1 and rng.random() < 0.2:
            # in another stream, at exactly the in-vertex offset where the previous element of the declaration ended
            ps, po, pt = els[-1][0], els[-1][1], els[-1][2]
            others = [k for k in range(nstreams) if k != ps and cursor[k] <= po + mdl.TYPE_SIZE[pt]]
            if others:
                s = rng.choice(others)
                cursor[s] = po + mdl.TYPE_SIZE[pt]
        if cursor[s] + mdl.TYPE_SIZE[t] > 200:
            s = min(range(nstreams), key=lambda k: cursor[k])
        els.append((s, cursor[s], t, u, 0))
        cursor[s] += mdl.TYPE_SIZE[t]
    # fill up to `fill` elements (16 = every slot of the declaration before its terminator) with further Tangent elements:
    # they occupy slots and stream bytes but have no field in the public vertex
    ui = 1
    while len(els) < fill:
        s = min(range(nstreams), key=lambda k: cursor[k])
        if cursor[s] + 4 > 250:
            break
        els.append((s, cursor[s], mdl.BYTEFLOAT4, mdl.TANGENT, ui))
        cursor[s] += 4
        ui += 1
    strides = [min(255, cursor[s] + rng.choice([0, 0, 2, 5])) for s in range(nstreams)]
    for s in range(nstreams):
        if strides[s] == 0:
            strides[s] = rng.choice([0, 4])
    if rng.random() < 0.5:
        rng.shuffle(els)
    return els, strides


def nice_f32(rng):
    return mdl.f32bits(rng.choice([0.0, 1.0, -1.0, 0.5, 2.0, -3.0, 10.0, 0.25, 100.0, -0.125]) + rng.randrange(-8, 9))


def gen_model(rng, maxv, pairs=None, version=None, canonical=False, wide=False):
    """wide: also table shapes only the parser has to cope with (C06): full 16-element declarations, terrain-shadow tables,
    bone tables beyond 64 entries (counted v6 form), many bones / materials / attributes"""
    version = version or rng.choice([0x1000005, 0x1000005, 0x1000006])
    nl = rng.choice([1, 1, 2, 3])
    lods = []
    nmat = rng.randint(1, 3)
    has_shapes = rng.random() < 0.5
    for li in range(nl):
        meshes = []
        for mi in range(rng.choice([1, 1, 2, 4])):
            nstreams = rng.choice([1, 2, 2, 3])
            shape_mesh = has_shapes and mi == 0
            fill = rng.choice([0, 0, 0, 0, 9, 15, 16, 16]) if wide else 0
            els, strides = gen_decl(rng, nstreams, pairs, need_position=[mdl.SINGLE3, mdl.SINGLE4] if shape_mesh else None, fill=fill)
            k = rng.random()
            vcount = rng.choice([0, 1, 2, 3, 17]) if k < 0.3 else rng.randint(1, min(300, maxv)) if (k < 0.9 or maxv <= 300) else rng.randint(300, maxv)
            vcount = min(vcount, maxv)
            if shape_mesh:
                vcount = max(vcount, 2)
            streams = [bytearray(rng.randbytes(vcount * strides[s])) for s in range(nstreams)]
            if shape_mesh:
                for (s, off, t, u, _) in els:
                    if u == mdl.POSITION:
                        for v in range(vcount):
                            n = 3 if t == mdl.SINGLE3 else 4
                            struct.pack_into("<%dI" % n, streams[s], strides[s] * v + off, *[nice_f32(rng) for _ in range(n)])
            nidx = rng.choice([0, 3, 6, 30]) if rng.random() < 0.6 else rng.randint(0, min(2000, 10 * maxv))
            if shape_mesh:
                nidx = max(nidx, 3)
                indices = [rng.randrange(vcount) for _ in range(nidx)]
            else:
                indices = [rng.randrange(max(vcount, 1)) if rng.random() < 0.8 else rng.getrandbits(16) for _ in range(nidx)]
            nsub = rng.choice([1, 1, 2, 3])
            cuts = sorted(rng.randint(0, nidx) for _ in range(nsub - 1))
            bounds = [0] + cuts + [nidx]
            submeshes = [(bounds[i + 1] - bounds[i], rng.getrandbits(32), rng.randrange(4), rng.randrange(4)) for i in range(nsub)]
            meshes.append(dict(unused_stride=rng.choice([0, 0, 0, 7, 255]) if wide else 0, elements=els, strides=strides, nstreams=nstreams, vcount=vcount, streams=[bytes(s) for s in streams], indices=indices, submeshes=submeshes,
                               material=rng.randrange(nmat), bone_table=0, shape_mesh=shape_mesh))
        lods.append(meshes)
    names = rng.sample(NAMES, len(NAMES))
    m = dict(version=version, lods=lods, materials=names[:nmat], bones=names[3:3 + rng.randint(0, 3)], attributes=names[6:6 + rng.randint(0, 2)],
             bone_tables=[[rng.randrange(4) for _ in range(rng.choice([1, 2, 3, 8]))] for _ in range(rng.randint(0, 2))],
             submesh_bone_map=[rng.randrange(8) for _ in range(rng.choice([0, 2, 5]))], padding=rng.choice([0, 0, 3, 7]) if not canonical else 0,
             element_ids=[(rng.getrandbits(16), 0, 0.0, 1.0, 2.0, 0.0, 0.0, 0.0) for _ in range(rng.choice([0, 0, 2]))], gap=0 if canonical else rng.choice([0, 0, 16]),
             header=dict(flags1=rng.choice([0x80, 0x40, 0x20, 0x10, 8, 4, 2, 1]), flags2=rng.choice([0, 0x80, 0x40, 0x20, 0x10, 8, 4, 2, 1]), radius=rng.random() * 10,
                         unknown7=rng.getrandbits(16), bg_change=rng.randrange(256)), extra_strings=["unused_string"] if rng.random() < 0.3 else [])
    if wide and rng.random() < 0.3:
        m["stream_shuffle_seed"] = rng.getrandbits(30)
    if wide and rng.random() < 0.3:
        m["decl_junk_seed"] = rng.getrandbits(30)
    if wide:
        if rng.random() < 0.35:
            m["terrain_shadow_meshes"] = [rng.randbytes(20) for _ in range(rng.choice([0, 1, 2, 7, 255]))]
            m["terrain_shadow_submeshes"] = [rng.randbytes(12) for _ in range(rng.choice([0, 1, 3, 300]))]
        if rng.random() < 0.3:
            big = [65, 128, 300] if version >= 0x1000006 else [63, 64]
            m["bone_tables"] = [[rng.randrange(400) for _ in range(rng.choice(big + [1, 64]))] for _ in range(rng.choice([1, 3, 70]))]
        if rng.random() < 0.15:
            m["bones"] = ["j_bone_%03d" % i for i in range(rng.choice([64, 65, 130, 257]))]
            m["attributes"] = ["atr_%03d" % i for i in range(rng.choice([0, 33, 70]))]
            m["submesh_bone_map"] = [rng.randrange(300) for _ in range(rng.choice([0, 64, 257, 1000]))]
    shapes = []
    if has_shapes:
        for si in range(rng.randint(1, 2)):
            per_lod = []
            for li in range(3):
                if li < nl and rng.random() < 0.8:
                    me = lods[li][0]
                    vals = [(rng.randrange(len(me["indices"])), rng.randrange(me["vcount"])) for _ in range(rng.randint(1, 5))]
                    if wide and rng.random() < 0.3:
                        # a shape mesh without values, or whose values all lie outside the mesh's index range: the shape does not touch this mesh
                        vals = [] if rng.random() < 0.5 else [(min(65535, len(me["indices"]) + rng.randrange(50)), rng.randrange(me["vcount"])) for _ in range(rng.randint(1, 3))]
                    per_lod.append([(0, vals)])
                else:
                    per_lod.append([])
            shapes.append(dict(name=names[7 + si], per_lod=per_lod))
    m["shapes"] = shapes
    return m


def expected_shapes(m, li, mesh_pos):
    me = m["lods"][li][mesh_pos]
    out = []
    pos_el = next((e for e in me["elements"] if e[3] == mdl.POSITION), None)
    for sh in m["shapes"]:
        ent = sh["per_lod"][li] if li < len(sh["per_lod"]) else []
        vals = [v for (mp, vs) in ent if mp == mesh_pos for v in vs if v[0] < len(me["indices"])]
        if not vals or me["_start_index"] != 0:
            continue
        # values that do not address an existing vertex are skipped (the shape itself is still reported)
        vals = [(b, r) for (b, r) in vals if me["indices"][b] < me["vcount"] and r < me["vcount"]]
        morph = [[0.0, 0.0, 0.0] for _ in range(me["vcount"])]

        def pos(v):
            s, off, t, u, _ = pos_el
            return struct.unpack_from("<3f", me["streams"][s], me["strides"][s] * v + off)
        for base, repl in vals:
            vi = me["indices"][base]
            a, b = pos(repl), pos(vi)
            morph[vi] = [struct.unpack("<f", struct.pack("<f", a[k] - b[k]))[0] for k in range(3)]
        out.append((sh["name"], b"".join(struct.pack("<3f", *x) for x in morph)))
    return out


def check_model(ctx, m, d, files, label):
    """compare a parsed dump `d` with the planted model `m`; returns True when equal"""
    ok = True

    def bad(sub, **det):
        nonlocal ok
        ok = False
        ctx.violation("decode", dict(sub=sub, **{k: det.pop(k) for k in list(det) if k in ("pair", "field")}), dict(det, label=label), files=files)

    if len(d["lods"]) != len(m["lods"]):
        bad("lod_count", got=len(d["lods"]), expected=len(m["lods"]))
        return False
    if d["materials"] != m["materials"]:
        bad("material_names", got=d["materials"], expected=m["materials"])
    if d["bones"] != m["bones"]:
        bad("bone_names", got=d["bones"], expected=m["bones"])
    for li, (gl, el) in enumerate(zip(d["lods"], m["lods"])):
        if len(gl) != len(el):
            bad("mesh_count", lod=li, got=len(gl), expected=len(el))
            continue
        for mi, (g, e) in enumerate(zip(gl, el)):
            where = dict(lod=li, mesh=mi)
            if g["nverts"] != e["vcount"]:
                bad("vertex_count", got=g["nverts"], expected=e["vcount"], **where)
                continue
            if g["material"] != e["material"]:
                bad("material_index", got=g["material"], expected=e["material"], **where)
            if g["indices"] != e["indices"]:
                fd = next((i for i, (a, b) in enumerate(zip(g["indices"], e["indices"])) if a != b), -1)
                bad("indices", got_len=len(g["indices"]), expected_len=len(e["indices"]), first_diff=fd, **where)
            so = e["_start_index"]
            exp_sub = []
            for (cnt, _, _, _) in e["submeshes"]:
                exp_sub.append((cnt, so)); so += cnt
            if g["submeshes"] != exp_sub:
                bad("submeshes", got=g["submeshes"], expected=exp_sub, **where)
            exp_streams = [(e["strides"][s], e["streams"][s]) for s in range(e["nstreams"])]
            if [(a, bytes(b)) for a, b in g["streams"]] != exp_streams:
                bad("vertex_streams", got=[(a, len(b)) for a, b in g["streams"]], expected=[(a, len(b)) for a, b in exp_streams], **where)
            # vertices: fast path on the primary decoding, slow path with accept sets
            verts = g["verts"]
            nslow = 0
            for k in range(e["vcount"]):
                rec = verts[92 * k:92 * k + 92]
                if rec == mdl.primary_vertex_record(e["elements"], e["streams"], e["strides"], k):
                    continue
                nslow += 1
                fields = mdl.check_vertex(rec, e["elements"], e["streams"], e["strides"], k)
                if fields:
                    f0 = fields[0].split("[")[0].replace(" default", "")
                    el = next((x for x in e["elements"] if FIELD_USAGE.get(f0) == x[3]), None)
                    pair = "%s/%s" % (mdl.USAGE_NAME[el[3]], mdl.TYPE_NAME[el[2]]) if el else "absent"
                    bad("vertex_component", pair=pair, field=f0, vertex=k, fields=fields[:6], declaration=[(s, o, mdl.TYPE_NAME[t], mdl.USAGE_NAME[u]) for s, o, t, u, _ in e["elements"]],
                        strides=e["strides"], **where)
                    break
            if nslow:
                ctx.note("vertices decoded differently from the primary decoding but inside the accept set", nslow)
            exp_shapes = expected_shapes(m, li, mi)
            got_shapes = [(n, bytes(mo)) for n, _, mo in g["shapes"]]
            if got_shapes != exp_shapes:
                bad("shapes", got=[(n, len(x)) for n, x in got_shapes], expected=[(n, len(x)) for n, x in exp_shapes], **where)
    return ok


FIELD_USAGE = {"position": mdl.POSITION, "uv0": mdl.UV, "uv1": mdl.UV, "normal": mdl.NORMAL, "bitangent": mdl.BITANGENT, "color": mdl.COLOR, "bone_weight": mdl.BLENDWEIGHTS, "bone_id": mdl.BLENDINDICES}


def classes_of(m):
    cl = {"version:%x" % m["version"], "lods:%d" % len(m["lods"])}
    for l in m["lods"]:
        for me in l:
            cl.add("streams:%d" % me["nstreams"])
            for (_, _, t, u, _) in me["elements"]:
                cl.add("pair:%s/%s" % (mdl.USAGE_NAME[u], mdl.TYPE_NAME[t]))
    if m["shapes"]:
        cl.add("shapes")
    if any(len(me["elements"]) == 16 for l in m["lods"] for me in l):
        cl.add("declaration:16-elements")
    if m.get("terrain_shadow_meshes"):
        cl.add("terrain-shadow-meshes")
    if m.get("terrain_shadow_submeshes"):
        cl.add("terrain-shadow-submeshes")
    if m.get("stream_shuffle_seed") is not None:
        cl.add("vertex-streams:shuffled-with-gaps")
    if m.get("decl_junk_seed") is not None:
        cl.add("declaration:junk-behind-terminator")
    if any(len(t) > 64 for t in m.get("bone_tables", [])):
        cl.add("bone-table:>64")
    if len(m.get("bones", [])) > 64:
        cl.add("bones:>64")
    return sorted(cl)


def run_model(ctx, m, label):
    data, info = mdl.build(m)
    f = ctx.write("m.mdl", data)
    dump = ctx.path("m.dump")
    if os.path.exists(dump):
        os.unlink(dump)
    nmesh = sum(len(l) for l in m["lods"])
    nontriv = nmesh >= 2 or any(me["nstreams"] >= 2 for l in m["lods"] for me in l) or bool(m["shapes"])
    ctx.case(digest(data), nontriv, classes_of(m) + [label], sample=dict(version=hex(m["version"]), lods=len(m["lods"]), meshes=nmesh, bytes=len(data),
             declaration=[(s, o, mdl.TYPE_NAME[t], mdl.USAGE_NAME[u]) for s, o, t, u, _ in m["lods"][0][0]["elements"]], vertices=m["lods"][0][0]["vcount"]))
    rec = ctx.call("mdl.parse", f, dump, input_bytes=len(data))
    if not ctx.check_mon(rec, len(data), files=[f]):
        return None
    if rec.outcome == "none":
        ctx.violation("decode", dict(sub="valid_model_rejected", version="%x" % m["version"]), dict(label=label), files=[f])
        return None
    d = mdl.parse_dump(ctx.read("m.dump"))
    check_model(ctx, m, d, [f], label)
    return data


def sweep_models(rng, which):
    """buffers enumerating all half patterns / byte values in every component position"""
    out = []
    # bytes: 256 vertices, every byte-typed pair, component c of vertex k = (k + 37*c) % 256
    els = [(0, 0, mdl.BYTEFLOAT4, mdl.COLOR, 0), (0, 4, mdl.BYTEFLOAT4, mdl.BLENDWEIGHTS, 0), (0, 8, mdl.BYTE4, mdl.BLENDINDICES, 0), (0, 12, mdl.BYTEFLOAT4, mdl.UV, 0),
           (0, 16, mdl.BYTEFLOAT4, mdl.BITANGENT, 0), (0, 20, mdl.BYTEFLOAT4, mdl.TANGENT, 0)]
    stream = b"".join(bytes(((k + 37 * c) % 256) for c in range(24)) for k in range(256))
    out.append(("byte-sweep", [dict(elements=els, strides=[24], nstreams=1, vcount=256, streams=[stream], indices=[0, 1, 2], submeshes=[(3, 0, 0, 0)], material=0, bone_table=0)]))
    if which == "small":
        step = 17
    elif which == "full":
        step = 1
    else:
        return out
    pats = list(range(0, 65536, step))
    els = [(0, 0, mdl.HALF4, mdl.POSITION, 0), (0, 8, mdl.HALF4, mdl.NORMAL, 0), (1, 0, mdl.HALF4, mdl.UV, 0)]
    els2 = [(0, 0, mdl.HALF2, mdl.UV, 0), (0, 4, mdl.HALF4, mdl.POSITION, 0)]
    for lo in range(0, len(pats), 30000):
        chunk = pats[lo:lo + 30000]
        s0 = b"".join(struct.pack("<8H", *[(p + 7919 * c) % 65536 for c in range(8)]) for p in chunk)
        s1 = b"".join(struct.pack("<4H", *[(p + 104729 * (c + 1)) % 65536 for c in range(4)]) for p in chunk)
        out.append(("half-sweep", [dict(elements=els, strides=[16, 8], nstreams=2, vcount=len(chunk), streams=[s0, s1], indices=[0], submeshes=[(1, 0, 0, 0)], material=0, bone_table=0),
                                   dict(elements=els2, strides=[12], nstreams=1, vcount=len(chunk), streams=[b"".join(struct.pack("<6H", *[(p + 31 * c) % 65536 for c in range(6)]) for p in chunk)],
                                        indices=[], submeshes=[(0, 0, 0, 0)], material=0, bone_table=0)]))
    return out


def special_models(rng):
    """models with relations between their records that random generation does not produce"""
    out = []
    # (1) a shape on a mesh that lies late in a long index list: start index + index count of the mesh cross 65 536 (a large model with
    #     morph targets); shapes on meshes that do not start at index 0 are observed, not asserted (ASSUMPTIONS) - but must parse
    for _ in range(8):
        m = gen_model(rng, 60)
        if len(m["lods"][0]) >= 2:
            break
    else:
        m = None
    if m is not None:
        l0 = m["lods"][0]
        a, b = l0[0], l0[1]
        a["indices"] = [rng.randrange(max(a["vcount"], 1)) for _ in range(rng.choice([57000, 60000, 65535 - 100]))]
        a["submeshes"] = [(len(a["indices"]),) + tuple(a["submeshes"][0][1:])]
        els, strides = gen_decl(rng, b["nstreams"], None, need_position=[mdl.SINGLE3, mdl.SINGLE4])
        b["elements"], b["strides"] = els, strides
        b["vcount"] = max(b["vcount"], 4)
        b["streams"] = [rng.randbytes(b["vcount"] * strides[s_]) for s_ in range(b["nstreams"])]
        for (s_, off, t, u, _) in els:
            if u == mdl.POSITION:
                for v in range(b["vcount"]):
                    n = 3 if t == mdl.SINGLE3 else 4
                    struct.pack_into("<%dI" % n, b["streams"][s_], 0, *[nice_f32(rng) for _ in range(n)]) if False else None
        b["streams"] = [bytes(x) for x in b["streams"]]
        b["indices"] = [rng.randrange(b["vcount"]) for _ in range(rng.choice([6000, 9000, 65536 - len(a["indices"]) % 65536]))]
        b["submeshes"] = [(len(b["indices"]),) + tuple(b["submeshes"][0][1:])]
        b["shape_mesh"] = True
        for me in l0[2:]:
            pass
        vals = [(rng.randrange(len(b["indices"])), rng.randrange(b["vcount"])) for _ in range(3)]
        m["shapes"] = [dict(name=NAMES[0], per_lod=[[(1, vals)], [], []])]
        for li in range(1, len(m["lods"])):
            for me in m["lods"][li]:
                me["shape_mesh"] = False
        out.append(("shape-on-late-mesh:start+count>=65536", m))
    # (2) two meshes of a LOD that address the same vertex bytes (equal stream offsets, strides, count) under different declarations:
    #     each is decoded by its own declaration
    for _ in range(3):
        m = gen_model(rng, 40)
        l0 = m["lods"][0]
        if len(l0) < 2 or m.get("stream_shuffle_seed") is not None:
            continue
        a = l0[0]
        if a["vcount"] == 0:
            continue
        for _try in range(60):
            els, strides = gen_decl(rng, a["nstreams"], None, need_position=[mdl.SINGLE3, mdl.SINGLE4] if l0[1].get("shape_mesh") else None)
            if all(strides[s_] <= a["strides"][s_] for s_ in range(a["nstreams"])) and sorted(e[:4] for e in els) != sorted(e[:4] for e in a["elements"]):
                b = l0[1]
                b.update(elements=els, strides=list(a["strides"]), nstreams=a["nstreams"], vcount=a["vcount"], streams=list(a["streams"]), alias_of=0)
                b["indices"] = [rng.randrange(max(b["vcount"], 1)) for _ in b["indices"]]
                if not l0[1].get("shape_mesh"):
                    out.append(("two-meshes-one-vertex-block-different-declarations", m))
                break
        if out and out[-1][0].startswith("two-meshes"):
            break
    # (3) two elements of the same usage in one declaration, in the same order in the declaration and in the vertex: a four-component
    #     UV element (both sets) followed by a two-component one (the first set again); each element writes what it carries, in order
    for ver in (0x1000005, 0x1000006):
        t4 = rng.choice([mdl.HALF4, mdl.SINGLE4])
        els = [(0, 0, mdl.SINGLE3, mdl.POSITION, 0), (0, 12, t4, mdl.UV, 0), (0, 12 + mdl.TYPE_SIZE[t4], mdl.HALF2, mdl.UV, 1)]
        stride = 12 + mdl.TYPE_SIZE[t4] + 4 + rng.choice([0, 4])
        vc = rng.randint(3, 40)
        mesh = dict(unused_stride=0, elements=els, strides=[stride, 0, 0], nstreams=1, vcount=vc, streams=[rng.randbytes(vc * stride)], indices=[rng.randrange(vc) for _ in range(12)],
                    submeshes=[(12, 0, 0, 0)], material=0, bone_table=0, shape_mesh=False)
        out.append(("declaration:uv4-then-uv2", dict(version=ver, lods=[[mesh]], materials=["m.mtrl"], bones=[], attributes=[], bone_tables=[], submesh_bone_map=[], padding=0, element_ids=[], gap=0, header={}, shapes=[])))
    return out


def shard(ctx):
    rng, P = ctx.rng, ctx.params
    from .. import faults, seeds
    fr = __import__("random").Random("c06-failing-%d-%d" % (ctx.seed, ctx.index))
    bad = [ctx.write("failing-%d.mdl" % i, d) for i, d in enumerate(x for _, data, _ in seeds.seeds_mdl(fr)[:3] for x in faults.damaged_variants(fr, data, 3))]
    ctx.failing_calls_first([("mdl.parse", (b, ctx.path("failing.dump"))) for b in bad], before=("mdl.parse",))
    if ctx.index % 4 == 1:
        for label, m in special_models(rng):
            run_model(ctx, m, label)
    for i in range(P["n"]):
        m = gen_model(rng, P["maxv"], wide=True)
        run_model(ctx, m, "random")
    if ctx.index == 0 and P["sweep"] != "none":
        for label, meshes in sweep_models(rng, P["sweep"]):
            for ver in (0x1000005, 0x1000006):
                m = dict(version=ver, lods=[meshes], materials=["m.mtrl"], bones=[], attributes=[], bone_tables=[], submesh_bone_map=[], padding=0, element_ids=[], gap=0, header={}, shapes=[])
                run_model(ctx, m, label)
