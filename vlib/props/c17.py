"""C17 - untrusted user and launcher files never crash the caller.

Monitors: panic / abort / CPU / allocation / residual-heap monitors inside the worker over faulted
variants of valid files (fault.batch), "Err on partial failure" monitor for patches (every strict
prefix, unwritable targets, injected EIO/ENOSPC at every I/O step through strace), missing /
unreadable paths for the path-taking entry points."""
import os, re, shutil, struct, subprocess
from .. import faults, seeds
from .. import core
from ..core import digest, build
from ..fmt import zipatch as zp

LEVEL = "fault_enumeration"
RULE = ("valid seeds (repository samples + generated) of cfg, exl, fiin, chardat, gearsets, chat log, boot/game patch lists, ZiPatch files and launcher executables damaged by every truncation "
        "point, every single-field corruption (widths 1/2/4, LE and for patches BE; values 0, 1, 0x7F.., 0x80.., 0xFF.., orig+-1, len, len+1), byte flips, insertion of structural characters "
        "(< > TAB CR LF NUL , |), invalid UTF-8 and 70 000-byte runs; patches additionally: every strict prefix must be Err, commands before any target info, zero/huge counts and sizes, "
        "unwritable targets (directory in place of the file, file in place of a parent directory, symlink to /dev/full, RLIMIT_FSIZE) and, in the thorough tier, an injected EIO / ENOSPC at "
        "every read of the patch and every write to a target (strace) must yield Err, never Ok; missing paths / directories for FileInfo::new, BootData, GameData, extract_frontier_url. "
        "Oracle per case: outcome value/none/err, never panic / abort / stack overflow, CPU and allocation budgets, residual heap 0. non-trivial = fault beyond the first 16 bytes or a fault "
        "sequence; distinct = (seed, operator, offset, value)")
ASSUMPTIONS = ["budgets: CPU <= 2 s + 20 s/MiB, allocation <= 64 x input + 64 MiB", "a patch cut inside the CRC that follows the final EOF_ tag may still report success (all chunks were read)"]


def plan(tier):
    if tier == "quick":
        return [("debug", 10, dict(budget=3000, strace=0)), ("release", 4, dict(budget=2000, strace=0)), ("asan", 2, dict(budget=500, strace=0)),
                ("memcheck", 4, dict(budget=1500, strace=0, cap=120, jobs=3))]
    return [("debug", 16, dict(budget=60000, strace=1)), ("release", 8, dict(budget=40000, strace=0)), ("asan", 8, dict(budget=8000, strace=0)),
            ("miri", 16, dict(budget=2000, strace=0, cap=25, jobs=2)),
            ("memcheck", 16, dict(budget=4000, strace=0, cap=500, jobs=4))]


def shard(ctx):
    rng, P = ctx.rng, ctx.params
    jobs = []
    for lab, data in seeds.seeds_cfg(rng):
        jobs.append(("cfg", lab, data, dict(text=True)))
    for lab, data in seeds.seeds_exl(rng):
        jobs.append(("exl", lab, data, dict(text=True)))
    for lab, data in seeds.seeds_fiin(rng):
        jobs.append(("fiin", lab, data, {}))
    for lab, data in seeds.seeds_chardat(rng):
        jobs.append(("chardat", lab, data, {}))
    for lab, data in seeds.seeds_gearsets(rng):
        jobs.append(("gearsets", lab, data, dict(dense_limit=600)))
    for lab, data in seeds.seeds_log(rng):
        jobs.append(("log", lab, data, {}))
    jobs.append(("plist.boot", "boot-list", seeds.PLIST_BOOT.encode(), dict(text=True)))
    jobs.append(("plist.game", "game-list", seeds.PLIST_GAME.encode(), dict(text=True)))
    jobs.append(("plist.game", "boot-list-as-game", seeds.PLIST_BOOT.encode(), dict(text=True)))
    # textual seeds that already carry multi-byte text in several places (a single inserted character cannot move a byte index into
    # another multi-byte character: that needs two of them), and minimal texts (an index computed on a transformed copy overshoots a
    # short string); every such variant then goes through the ordinary fault operators
    for kind, lab, data in [("plist.boot", "boot-list", seeds.PLIST_BOOT.encode()), ("plist.game", "game-list", seeds.PLIST_GAME.encode()),
                            ("cfg", "tiny-cfg", b"\r\n<A>\r\nk\tv\r\n\0"), ("exl", "generated-exl", seeds.seeds_exl(rng)[-1][1])]:
        for v in range(2):
            b = bytearray(data)
            starts = [i for i in range(len(b) + 1) if i == 0 or i == len(b) or (b[i - 1] in b"\t\r\n,=;/ :" and b[i:i + 1] not in (b"\r", b"\n"))]
            for pos in sorted(rng.sample(starts, min(len(starts), rng.choice([2, 3, 6, 12]))), reverse=True):
                b[pos:pos] = (rng.choice(faults.UTF8_INSERTS) * rng.choice([1, 1, 4, 19])).encode("utf-8")
            jobs.append((kind, lab + "+utf8-text", bytes(b), dict(text=True, small=True)))
    for kind, lab, data in [("plist.boot", "minimal-header", b"X-Patch-Length: 1\r\n"), ("plist.game", "minimal-header", b"X-Patch-Length: 1\r\n"),
                            ("plist.boot", "header-twice", b"x-patch-length: 7\r\nX-Patch-Length: 1\r\n\r\n"), ("exl", "minimal-exl", b"EXLT,2\r\n"), ("cfg", "minimal-cfg", b"<A>\r\nk\tv\r\n")]:
        jobs.append((kind, lab, data, dict(text=True, small=True)))
    # brackets of a category line in every wrong order and number
    for i, t in enumerate([b"\r\n>A<\r\nk\tv\r\n", b"><", b">x<y>\r\nk\tv\r\n", b"<>\r\n", b"a>b<c\r\n", b">\r\n<\r\n", b"<<A>>\r\nk\tv\r\n", b"<A><B>\r\n", b">Sound Settings<\r\nVol\t1\r\n"]):
        jobs.append(("cfg", "brackets-%d" % i, t, dict(text=True, small=True)))
    # patch lists in which one numeric column already holds an extreme value in every row: the ordinary token faults then put a second
    # extreme value into any other field (two values that are harmless alone: a length of -2^63 next to a block size of -1)
    for kind, text_ in (("plist.game", seeds.PLIST_GAME), ("plist.boot", seeds.PLIST_BOOT)):
        head, _, body = text_.partition("\r\n\r\n")
        rows = body.split("\r\n")
        ncol = max(len(r_.split("\t")) for r_ in rows)
        for c in [c for c in range(ncol) if all(len(r_.split("\t")) <= c or r_.split("\t")[c].lstrip("-").isdigit() for r_ in rows if "\t" in r_)]:
            for v in (-2 ** 63, -1, 0, 2 ** 63 - 1, 2 ** 64 - 1):
                nb = "\r\n".join("\t".join(str(v) if i == c else f for i, f in enumerate(r_.split("\t"))) if "\t" in r_ else r_ for r_ in rows)
                jobs.append((kind, "column-%d=%d" % (c, v), (head + "\r\n\r\n" + nb).encode(), dict(text=True, small=True)))
    # chat logs whose offset table is not ascending (descending, alternating, all equal): an entry must not be taken to run to the
    # end of the file (or anywhere) because its successor lies before it
    for name, offs in (("descending", lambda n, L: [L * (n - 1 - i) for i in range(n)]), ("alternating", lambda n, L: [0 if i % 2 == 0 else L * n for i in range(n)]),
                       ("all-equal", lambda n, L: [L] * n), ("last-first", lambda n, L: [L * i for i in range(1, n)] + [0])):
        n, L = 6000, 18
        body = b"".join(struct.pack("<IBBI", 1700000000 + i, 3, 0, 1) + b"msg%05d" % i for i in range(n))
        c = 4
        data = struct.pack("<II", c, c + n) + b"".join(struct.pack("<I", o) for o in offs(n, L))
        data = data.ljust(8 + (c + n) * 4, b"\0") + body
        jobs.append(("log", "absurd-log offsets " + name, data, dict(small=True)))
    for lab, data in seeds.seeds_patch(rng):
        jobs.append(("zp.apply", lab, data, dict(big_endian=True, patch=True)))
    for where in ("start", "middle", "end"):
        for term in (True, False):
            jobs.append(("frontier", "exe-%s-%s" % (where, "terminated" if term else "unterminated"), seeds.build_exe(rng, where=where, terminated=term), {}))
    jobs.append(("frontier", "exe-old-url", seeds.build_exe(rng, needle="https://frontier.ffxiv.com", tail="/version_5_0_win/index.html"), {}))
    mine = [j for i, j in enumerate(jobs) if i % ctx.nshards == ctx.index] + [jobs[(ctx.index * 5 + 3) % len(jobs)]]
    if P.get("cap") is None and ctx.variant != "asan":
        # (not under ASan: its 2-4 x slowdown would leave too little margin between the cost of the intact files and the CPU budget)
        large = seeds.seeds_large(rng)
        for k, (kind, lab, data) in enumerate(large):
            if k % ctx.nshards == ctx.index % max(1, min(ctx.nshards, len(large))):
                mine.append((kind, lab, data, dict(large=True, text=kind in ("exl", "cfg", "plist.game"), patch=kind == "zp.apply", big_endian=kind == "zp.apply")))
    cap = P.get("cap")
    if cap is not None:
        # interpreter stage: the entry points that reach `unsafe` first (UTF-16 reinterpretation in the executable scan, inflate
        # inside patch application, SHA-1 block view in the file-info builder), then the smallest remaining seed
        prio = [j for j in jobs if j[0] in ("frontier", "zp.apply", "fiin")]
        mine = [prio[ctx.index % len(prio)]] + sorted(mine, key=lambda j: len(j[2]))[:max(0, P.get("jobs", 2) - 1)]
    for kind, lab, data, opt in mine:
        budget = P["budget"] if kind != "zp.apply" else max(600, P["budget"] // 4)
        if opt.get("small"):
            budget = max(400, budget // 4)
        if opt.get("large"):
            # the intact file, two truncations and a handful of sampled faults: the question here is cost, not parsing
            n = len(data)
            muts = [(n, 0, 0, "truncate"), (n // 2, 0, 0, "truncate"), (n - 1, 0, 0, "truncate")] + [(rng.randrange(n), 1, rng.randrange(256), "random-byte") for _ in range(5)]
            ctx.stats.classes["large-valid-seed:%s" % kind] += 1
            faults.run_batch(ctx, kind, data, muts, label=lab)
            continue
        focus = []
        if opt.get("patch"):
            # the head of every chunk (size, tag, SQPK command header / directory name length), wherever it lies in the file
            pos = 12
            while pos + 12 <= len(data):
                focus.append((pos, pos + 48))
                pos += 12 + struct.unpack_from(">I", data, pos)[0]
        muts = faults.mutations(data, rng, budget, big_endian=opt.get("big_endian", False), text=opt.get("text", False), dense_limit=opt.get("dense_limit", 1536), cap=cap, focus=focus)
        if opt.get("patch"):
            n = len(data)
            faults.run_batch(ctx, kind, data, muts, label=lab, must_not_be_ok=lambda m, n=n: m[1] == 0 and m[0] < n - 4)
        else:
            faults.run_batch(ctx, kind, data, muts, label=lab)
    if cap is not None:
        return      # interpreter stage: the fault batches only
    if ctx.index % 3 == 0:
        paths_and_dirs(ctx, rng)
    if ctx.index % 3 == 1:
        patch_sequences(ctx, rng)
    if ctx.index % 3 == 2:
        unwritable_targets(ctx, rng)
    if P["strace"] and ctx.index < 6:
        injected_io_faults(ctx, rng)


def judge_simple(ctx, rec, entry, files=(), must_fail=False, label=""):
    ctx.stats.evaluations += 1
    ctx.stats.classes["%s:outcome-%s" % (entry, rec.outcome.split(":")[0])] += 1
    ctx.stats.nontrivial.add(digest(entry, label, ctx.index, ctx.stats.evaluations))
    ctx.check_mon(rec, 1 << 16, residual=False, entry=entry, files=list(files))
    if must_fail and rec.outcome == "ok":
        ctx.violation("partial", dict(kind="partial", entry=entry, sub="ok_on_failed_operation", what=label), dict(label=label, value=str(rec.value)[:200]), files=list(files))


def paths_and_dirs(ctx, rng):
    missing = ctx.path("does-not-exist")
    afile = ctx.write("plain-file", b"x")
    adir = ctx.path("a-dir")
    os.makedirs(adir, exist_ok=True)
    empty = ctx.write("empty-file", b"")
    for label, p in (("missing", missing), ("directory", adir), ("empty-file", empty), ("file", afile)):
        judge_simple(ctx, ctx.call("frontier", p), "frontier", label=label)
        judge_simple(ctx, ctx.call("boot.open", p), "boot.open", label=label)
        for plat in ("win32", "ps3"):
            r = ctx.call("gd.open", plat, p)
            judge_simple(ctx, r, "gd.open", label=label)
            if r.ok:
                for q in ("exd/root.exl", "bg/ex1/a/b", "x", ""):
                    judge_simple(ctx, ctx.call("gd.exists", r.value["handle"], q), "gd.exists/odd-root", label=label)
                    judge_simple(ctx, ctx.call("gd.extract", r.value["handle"], q, "-"), "gd.extract/odd-root", label=label)
                judge_simple(ctx, ctx.call("gd.sheet_names", r.value["handle"]), "gd.sheet_names/odd-root", label=label)
                ctx.call("drop", r.value["handle"])
        judge_simple(ctx, ctx.call("fiin.new", ctx.path("o.fiin"), afile, p), "fiin.new", label=label)
        judge_simple(ctx, ctx.call("zp.apply", adir, p), "zp.apply/patch-path", label=label, must_fail=True)
        judge_simple(ctx, ctx.call("idx.open", p), "idx.open", label=label)
        judge_simple(ctx, ctx.call("dat.read", p, 0, ctx.path("o.bin")), "dat.read", label=label)
    # boot directory with / without a version file
    os.makedirs(ctx.path("boot-ok"), exist_ok=True)
    open(ctx.path("boot-ok/ffxivboot.ver"), "wb").write(b"\xff\xfe2012")
    judge_simple(ctx, ctx.call("boot.open", ctx.path("boot-ok")), "boot.open", label="non-utf8-version")


def patch_sequences(ctx, rng):
    """commands before any target info, zero / huge counts and sizes"""
    cases = []
    d = rng.randbytes(128)
    for op in (dict(op="A", main=0, sub=0, fid=0, off=0, data=d, dele=0), dict(op="D", main=0, sub=0, fid=0, off=0, n=1), dict(op="E", main=0, sub=0, fid=0, off=0, n=1),
               dict(op="H", fk=b"D", hk=b"V", main=0, sub=0, fid=0, data=rng.randbytes(1024)), dict(op="H", fk=b"I", hk=b"I", main=0, sub=0, fid=0, data=rng.randbytes(1024))):
        cases.append(("before-target-info:" + op["op"], [op, dict(op="EOF")], False))
    cases.append(("delete-zero-blocks", [dict(op="T", platform=0), dict(op="D", main=0, sub=0, fid=0, off=0, n=0), dict(op="EOF")], False))
    cases.append(("expand-zero-blocks", [dict(op="T", platform=0), dict(op="E", main=0, sub=0, fid=0, off=0, n=0), dict(op="EOF")], False))
    cases.append(("no-eof", [dict(op="T", platform=0), dict(op="A", main=0, sub=0, fid=0, off=0, data=d, dele=0)], True))
    cases.append(("empty-patch", [], True))
    for label, ops, must_fail in cases:
        root = ctx.path("seqtarget")
        shutil.rmtree(root, ignore_errors=True)
        os.makedirs(os.path.join(root, "sqpack", "ffxiv"))
        pf = ctx.write("seq.patch", zp.serialise(ops))
        rec = ctx.call("zp.apply", root, pf, input_bytes=os.path.getsize(pf))
        judge_simple(ctx, rec, "zp.apply/sequence", files=[pf], must_fail=must_fail, label=label)
    # hand-made wire-level oddities: huge block counts / file sizes / path lengths in otherwise valid chunks
    base = zp.serialise([dict(op="T", platform=0), dict(op="FA", path="a/b.bin", offset=0, chunks=[(b"x" * 100, False)]), dict(op="EOF")])
    i = base.index(b"a/b.bin")
    for label, patchfn in (("file-size-huge", lambda b: b[:i - 24] + struct.pack(">Q", 2 ** 62) + b[i - 16:]),
                           ("path-length-huge", lambda b: b[:i - 8] + struct.pack(">I", 2 ** 31) + b[i - 4:]),
                           ("offset-huge", lambda b: b[:i - 32] + struct.pack(">Q", 2 ** 62) + b[i - 24:])):
        root = ctx.path("seqtarget")
        shutil.rmtree(root, ignore_errors=True)
        os.makedirs(root)
        pf = ctx.write("odd.patch", patchfn(base))
        rec = ctx.call("zp.apply", root, pf, input_bytes=os.path.getsize(pf))
        judge_simple(ctx, rec, "zp.apply/sequence", files=[pf], label=label)


def unwritable_targets(ctx, rng):
    pn = "win32"
    dat = "sqpack/ffxiv/000000.%s.dat0" % pn
    d = rng.randbytes(256)
    ops_by_kind = {
        "A": [dict(op="T", platform=0), dict(op="A", main=0, sub=0, fid=0, off=0, data=d, dele=0), dict(op="EOF")],
        "E": [dict(op="T", platform=0), dict(op="E", main=0, sub=0, fid=0, off=2, n=2), dict(op="EOF")],
        "H": [dict(op="T", platform=0), dict(op="H", fk=b"D", hk=b"V", main=0, sub=0, fid=0, data=rng.randbytes(1024)), dict(op="EOF")],
        "FA": [dict(op="T", platform=0), dict(op="FA", path=dat, offset=0, chunks=[(d, False)]), dict(op="EOF")],
        "D": [dict(op="T", platform=0), dict(op="D", main=0, sub=0, fid=0, off=1, n=2), dict(op="EOF")],
        # the second write of a command: add-data that carries blocks to wipe behind its data (with and without data of its own)
        "A+wipe": [dict(op="T", platform=0), dict(op="A", main=0, sub=0, fid=0, off=0, data=d, dele=3), dict(op="EOF")],
        "A0+wipe": [dict(op="T", platform=0), dict(op="A", main=0, sub=0, fid=0, off=0, data=b"", dele=2), dict(op="EOF")],
    }
    # the same with an apply-option chunk in front (option 1 = "ignore missing", option 2 = "ignore old mismatch", value 0 / 1):
    # an option relaxes what it names, not every error
    for k in list(ops_by_kind):
        for opt, val in ((1, 1), (2, 1), (1, 0)):
            ops_by_kind["%s+APLY(%d,%d)" % (k, opt, val)] = [dict(op="APLY", option=opt, value=val)] + ops_by_kind[k]
    for kind, ops in ops_by_kind.items():
        for obstacle in ("directory-in-place-of-file", "file-in-place-of-parent", "symlink-to-dev-full", "beyond-file-size-limit"):
            root = ctx.path("obst")
            shutil.rmtree(root, ignore_errors=True)
            os.makedirs(root)
            these = ops
            if obstacle == "directory-in-place-of-file":
                os.makedirs(os.path.join(root, dat))
            elif obstacle == "file-in-place-of-parent":
                open(os.path.join(root, "sqpack"), "wb").write(b"i am a file")
            elif obstacle == "symlink-to-dev-full":
                os.makedirs(os.path.join(root, "sqpack", "ffxiv"))
                os.symlink("/dev/full", os.path.join(root, dat))
            else:
                os.makedirs(os.path.join(root, "sqpack", "ffxiv"))
                big = 3_000_000  # x128 bytes = 384 MB, above the worker's RLIMIT_FSIZE of 256 MiB
                base = kind.split("+")[0]
                if base in ("A+wipe", "A0+wipe"):
                    # the data ends exactly at the size limit, the wipe behind it lies beyond
                    lim = core.RLIMIT_FSIZE_BYTES // 128
                    these = [dict(o, off=lim - len(o["data"]) // 128) if o["op"] == "A" else o for o in ops]
                elif base in ("A", "E"):
                    these = [dict(o, off=big) if o["op"] == base else o for o in ops]
                elif base == "FA":
                    these = [dict(o, offset=big * 128) if o["op"] == "FA" else o for o in ops]
                else:
                    continue
            pf = ctx.write("obst.patch", zp.serialise(these))
            rec = ctx.call("zp.apply", root, pf, input_bytes=os.path.getsize(pf))
            judge_simple(ctx, rec, "zp.apply/unwritable", files=[pf], must_fail=True, label="%s:%s" % (kind, obstacle))
            shutil.rmtree(root, ignore_errors=True)


def injected_io_faults(ctx, rng):
    """an EIO on every read of the patch file and an ENOSPC on every write to a target file: apply must report Err"""
    if not shutil.which("strace"):
        ctx.inconclusive("strace not available")
        return
    binary = build(ctx.variant)
    ops = [dict(op="FHDR", version=3), dict(op="T", platform=0), dict(op="A", main=0, sub=0, fid=0, off=0, data=rng.randbytes(384), dele=2), dict(op="E", main=0, sub=0, fid=0, off=8, n=2),
           dict(op="H", fk=b"I", hk=b"I", main=0, sub=0, fid=0, data=rng.randbytes(1024)), dict(op="FA", path="boot/x.bin", offset=0, chunks=[(rng.randbytes(300), True), (rng.randbytes(200), False)]),
           dict(op="D", main=0, sub=0, fid=0, off=1, n=1), dict(op="EOF")]
    wire = zp.serialise(ops)
    pf = ctx.write("inj.patch", wire)
    model = zp.Model({}, ["sqpack/ffxiv"])
    model.apply(ops)
    targets = sorted(model.touched)
    env = dict(os.environ, VERIF_NO_WARM="1")

    def run(extra, root):
        shutil.rmtree(root, ignore_errors=True)
        os.makedirs(os.path.join(root, "sqpack", "ffxiv"))
        for t in targets:
            # -P needs existing paths: pre-create the targets empty (apply opens them with create(true))
            os.makedirs(os.path.dirname(os.path.join(root, t)), exist_ok=True)
            open(os.path.join(root, t), "ab").close()
        log = ctx.path("inj.log")
        cmd = ["strace", "-f", "-o", log] + extra + [binary, "--once", "zp.apply", root, pf]
        p = subprocess.run(cmd, stdout=subprocess.PIPE, stderr=subprocess.PIPE, text=True, timeout=120, env=env)
        m = re.search(r'"outcome":"([^"]*)"', p.stdout)
        injected = "(INJECTED)" in open(log, errors="replace").read() if os.path.exists(log) else False
        return (m.group(1) if m else "no-record:%s" % p.stderr[-200:]), injected, p

    root = ctx.path("injtarget")
    # count the syscalls of a fault-free run
    counts = {}
    for what, sysc, paths in (("read", "read", [pf]), ("write", "write", [os.path.join(root, t) for t in targets])):
        oc, _, p = run(sum((["-P", x] for x in paths), []) + ["-e", "trace=" + sysc], root)
        if oc != "ok":
            ctx.inconclusive("fault-free strace run did not succeed: %s" % oc)
            return
        n = len([l for l in open(ctx.path("inj.log"), errors="replace") if re.search(r"\b%s\(" % sysc, l)])
        counts[what] = (n, sysc, paths)
    for what, (n, sysc, paths) in counts.items():
        err = "EIO" if what == "read" else "ENOSPC"
        for k in range(1, n + 1):
            oc, injected, p = run(sum((["-P", x] for x in paths), []) + ["-e", "trace=" + sysc, "-e", "inject=%s:error=%s:when=%d" % (sysc, err, k)], root)
            ctx.stats.evaluations += 1
            ctx.stats.classes["inject:%s-%s" % (what, err)] += 1
            ctx.stats.nontrivial.add(digest("inject", what, k, ctx.index))
            if not injected:
                ctx.note("injection point %s #%d not reached" % (what, k))
                continue
            if oc == "ok":
                # success is only acceptable when the patch really took full effect (the failed call was retried / not needed)
                got_files, got_dirs = zp.snapshot(root)
                diffs = zp.compare(model, got_files, got_dirs)
                if diffs:
                    ctx.violation("partial", dict(kind="partial", entry="zp.apply/injected", sub="ok_on_io_fault", what=what), dict(syscall=sysc, nth=k, error=err, diffs=[list(d) for d in diffs[:4]]), files=[pf])
                else:
                    ctx.note("injected %s fault absorbed: apply succeeded and the tree is complete" % what)
            elif oc == "panic" or oc.startswith("no-record"):
                ctx.violation("panic", dict(kind="panic", entry="zp.apply/injected", sub="crash_on_io_fault", what=what), dict(syscall=sysc, nth=k, error=err, out=p.stdout[-600:], err=p.stderr[-300:]), files=[pf])
    if len(ctx.stats.samples) < 4:
        ctx.stats.samples.append(dict(injected_faults={k: v[0] for k, v in counts.items()}, targets=targets))
    shutil.rmtree(root, ignore_errors=True)
