"""C11 - the SqexArg cipher is standard Blowfish and decryption inverts encryption.

Monitor: reference-model monitor. The reference computes its tables from pi and is self-checked
on published vectors before the library is consulted (vlib/fmt/blowfish.py)."""
import os, struct
from ..core import digest
from ..fmt import blowfish as bf

LEVEL = "exploration"
RULE = ("(key, message) pairs: keys of 8..56 bytes (random, all-equal bytes, only-first-8-differ, only-tail-differs), "
        "messages of 0..4096 bytes (every length 0..64, block edges, random); library ciphertext compared with the "
        "pi-derived reference keyed with the first 8 key bytes, decrypt(encrypt(m)) compared with the zero-padded message; "
        "16 published ECB vectors pushed through the library with word-order conversion; several messages of falling and rising length through one object; "
        "successive objects with related keys (equal halves, one differing bit, the same key again). "
        "non-trivial = message of >= 1 byte; distinct = digest of (key, message)")
ASSUMPTIONS = ["Reference Blowfish derived from pi digits reproduces the 16 published ECB vectors (checked at import)"]


def plan(tier):
    if tier == "quick":
        return [("debug", 16, dict(n=500)), ("release", 2, dict(n=400))]
    return [("debug", 16, dict(n=11000)), ("release", 4, dict(n=6000)),
            ("miri", 4, dict(n=2, small=True, threads=3, reps=2))]    # the shared-object workload under Miri's data-race detector


def shard(ctx):
    rng, P = ctx.rng, ctx.params
    cases = []
    for i in range(P["n"]):
        kl = rng.choice([8, 8, 8, 9, 12, 16, 24, 32, 55, 56, rng.randint(8, 56)])
        m = rng.random()
        if m < 0.7:
            key = rng.randbytes(kl)
        elif m < 0.8:
            key = bytes([rng.randrange(256)]) * kl
        elif m < 0.9:
            key = bytes([0] * kl)
        else:
            key = bytes([0xFF] * 8) + rng.randbytes(kl - 8)
        if i <= 64:
            ml = i
        else:
            ml = rng.choice([0, 1, 7, 8, 9, 15, 16, 17, 63, 64, 65, 255, 256, 1024, 4095, 4096, rng.randint(0, 300), rng.randint(0, 4096)])
        mm = rng.random()
        msg = rng.randbytes(ml) if mm < 0.8 else bytes([rng.choice([0, 0xFF, 0x80])]) * ml
        cases.append((key, msg, "rand"))
    # several messages through ONE object, lengths going down and up (an unaligned message after a longer one must still be zero-padded)
    for _ in range(max(2, P["n"] // 40)):
        key = rng.randbytes(rng.choice([8, 8, 16, 56]))
        lens = [rng.choice([64, 100, 1000, 33]), rng.choice([1, 3, 5, 7, 9, 13]), rng.choice([17, 31, 2]), 0, rng.choice([4095, 12, 6]), rng.choice([1, 2, 3])]
        for j, ml in enumerate(lens):
            cases.append((key, rng.randbytes(ml) if rng.random() < 0.5 else bytes([0xFF]) * ml, "reuse", j > 0))
    # successive objects with related keys (equal halves, one differing byte, the same key again): no state may leak from one into the next
    for _ in range(max(2, P["n"] // 40)):
        k0 = rng.randbytes(8)
        rel = [k0, k0[:4] + rng.randbytes(4), rng.randbytes(4) + k0[4:], k0, bytes([k0[0] ^ 1]) + k0[1:], k0[:7] + bytes([k0[7] ^ 0x80]), k0[::-1], k0]
        for k in rel:
            cases.append((k + (rng.randbytes(rng.choice([0, 0, 8])) if rng.random() < 0.3 else b""), rng.randbytes(rng.choice([8, 16, 5])), "related-keys"))
    # keys whose schedule puts the same entry twice into one S-box ("weak keys", about one key in 33 000; these were found by searching
    # hex-digit keys with the reference implementation) are keys like any other; so are keys that spell hex digits
    for k in (b"3653ab5c", b"72e45d1d", b"96603c97", b"cfdf0000", b"00012570", b"0001d8e6"):
        cases.append((k + (rng.randbytes(rng.choice([0, 4])) if rng.random() < 0.3 else b""), rng.randbytes(rng.choice([8, 24, 5])), "weak-key"))
    for n in (8, 16, 16, 32, 56):
        cases.append(("".join(rng.choice(rng.choice(["0123456789abcdef", "0123456789ABCDEF"])) for _ in range(n)).encode(), rng.randbytes(16), "hex-digit-key"))
    # tail of a long key must be insignificant: same first 8 bytes, different tails
    base = rng.randbytes(8)
    for _ in range(4):
        cases.append((base + rng.randbytes(rng.randint(1, 48)), b"tail-insignificant-message", "tail"))
    if ctx.index == 0:
        for k, p, c in bf.VECTORS:
            pl = b"".join(struct.pack("<I", x) for x in struct.unpack(">II", bytes.fromhex(p)))
            cases.append((bytes.fromhex(k), pl, "vector:" + c))
    small = P.get("small")
    seq_cases(ctx, rng, 1, 1, 3 if small else 12, 6 if small else 30, 64 if small else 600)
    if P.get("threads", 4) > 1:
        seq_cases(ctx, rng, P.get("threads", 4), P.get("reps", 40), 1 if small else 3, 6 if small else 16, 200 if small else 4100)
    cases = [c if len(c) == 4 else c + (False,) for c in cases]
    inp = ctx.write("bf.in", ("\n".join(("=" if same else k.hex()) + " " + m.hex() for k, m, _, same in cases) + "\n").encode())
    out = ctx.path("bf.out")
    sz = os.path.getsize(inp)
    rec = ctx.call("bf.batch", inp, out, input_bytes=sz)
    ctx.check_mon(rec, sz, files=[inp])
    if not rec.ok:
        return
    lines = ctx.read("bf.out").decode().split("\n")
    cache = {}
    for (key, msg, kind, same), l in zip(cases, lines):
        parts = l.split(" ")
        if len(parts) != 2 or not parts[0].startswith("h") or not parts[1].startswith("h"):
            ctx.violation("blowfish", dict(sub="returned_none"), dict(key=key.hex(), msg=msg.hex()[:200], line=l[:100]), files=[inp])
            continue
        e = bytes.fromhex(parts[0][1:]); d = bytes.fromhex(parts[1][1:])
        k8 = key[:8]
        if k8 not in cache:
            cache[k8] = bf.BF(k8)
        exp, pm = bf.encrypt_le(k8, msg) if False else _enc(cache[k8], msg)
        ctx.case(digest(key, msg), len(msg) >= 1, ["keylen:%d" % len(key), "msgmod8:%d" % (len(msg) % 8), "blocks:%s" % bucket(len(pm) // 8), kind.split(":")[0]],
                 sample=dict(key=key.hex(), msg=msg.hex()[:64], cipher=e.hex()[:64]))
        if e != exp:
            ctx.violation("blowfish", dict(sub="ciphertext"), dict(key=key.hex(), msg=msg.hex()[:400], got=e.hex()[:400], expected=exp.hex()[:400]), files=[inp])
        if d != pm:
            ctx.violation("blowfish", dict(sub="decrypt_inverse"), dict(key=key.hex(), msg=msg.hex()[:400], got=d.hex()[:400]), files=[inp])
        if len(e) != len(pm):
            ctx.violation("blowfish", dict(sub="padding_length"), dict(msg_len=len(msg), out_len=len(e)), files=[inp])
        if kind.startswith("vector:"):
            c = bytes.fromhex(kind[7:])
            cl = b"".join(struct.pack("<I", x) for x in struct.unpack(">II", c))
            if e != cl:
                ctx.violation("blowfish", dict(sub="published_vector"), dict(key=key.hex(), got=e.hex(), expected=cl.hex()), files=[inp])


def seq_cases(ctx, rng, threads, reps, nblocks, nops, maxlen):
    """operation histories on one cipher object (bf.seq): E and D in any order, the same argument through both directions, results
    fed back in as arguments, immediate repeats; with threads > 1 the operations of a block are dealt to threads that share the
    object. Every single result is compared with the reference, whatever came before it or runs beside it."""
    blocks = []
    for _ in range(nblocks):
        kl = rng.choice([8, 8, 12, 16, 56, rng.randint(8, 56)])
        key = rng.randbytes(kl)
        ref = bf.BF(key[:8])
        ops = []
        pool = []
        for _ in range(nops):
            k = rng.random()
            if pool and k < 0.45:
                m = rng.choice(pool)          # an argument or a result seen before on this object
            else:
                n = rng.choice([0, 1, 7, 8, 9, 16, 64, rng.randint(0, maxlen), (rng.randint(0, maxlen) // 8) * 8, maxlen - 3])
                m = rng.randbytes(max(0, n))
            enc = rng.random() < 0.5
            if ops and rng.random() < 0.25:
                m = ops[-1][1]                  # same argument as the previous operation ...
                enc = (not ops[-1][0]) if rng.random() < 0.7 else ops[-1][0]   # ... usually through the other direction
            exp = _enc(ref, m)[0] if enc else _dec(ref, m)
            ops.append((enc, m, exp))
            pool += [m, exp]
        blocks.append((key, ops))
    text = "".join("K %s\n" % k.hex() + "".join("%s %s\n" % ("E" if e else "D", m.hex()) for e, m, _ in ops) for k, ops in blocks)
    inp = ctx.write("bfseq.in", text.encode())
    out = ctx.path("bfseq.out")
    sz = os.path.getsize(inp)
    rec = ctx.call("bf.seq", inp, out, threads, reps, input_bytes=sz * max(1, reps))
    ctx.check_mon(rec, sz * max(1, reps), files=[inp], residual=(threads == 1))
    if not rec.ok:
        return
    lines = ctx.read("bfseq.out").decode().split("\n")
    flat = [(k, o) for k, ops in blocks for o in ops]
    shared = threads > 1 and rec.value.get("shared_between_threads")
    if threads > 1 and not shared:
        ctx.note("the cipher type of this tree is not Sync: the shared-object workload ran on one thread")
    label = "threads:%d" % threads if shared else "history-one-object"
    if shared:
        ctx.stats.monitor["concurrent_calls"] += rec.value.get("n", 0)
    prev = None
    for (key, (enc, m, exp)), l in zip(flat, lines):
        rel = "first" if prev is None or prev[0] is not key else ("same-arg-other-direction" if prev[1][1] == m and prev[1][0] != enc else "same-arg-same-direction" if prev[1][1] == m else "other-arg")
        prev = (key, (enc, m, exp))
        ctx.case(digest("seq", key, enc, m, threads), len(m) >= 1, [label, "seq-op:%s" % ("E" if enc else "D"), "seq-prev:%s" % rel, "msgmod8:%d" % (len(m) % 8)],
                 sample=dict(key=key.hex(), op="E" if enc else "D", msg=m.hex()[:64], threads=threads))
        if l != "h" + exp.hex():
            ctx.violation("blowfish", dict(sub="history_result" if threads == 1 else "shared_object_result", op="E" if enc else "D", prev=rel if threads == 1 else "concurrent"),
                          dict(key=key.hex(), op="E" if enc else "D", msg=m.hex()[:400], got=l[:400], expected=exp.hex()[:400], threads=threads, reps=reps), files=[inp],
                          commands=[dict(verb="bf.seq", args=[inp, out, str(threads), str(reps)])])


def _dec(b, msg):
    pm = msg + b"\0" * ((-len(msg)) % 8)
    out = bytearray()
    for i in range(0, len(pm), 8):
        l, r = struct.unpack_from("<II", pm, i)
        l, r = b.dec(l, r)
        out += struct.pack("<II", l, r)
    return bytes(out)


def _enc(b, msg):
    pm = msg + b"\0" * ((-len(msg)) % 8)
    out = bytearray()
    for i in range(0, len(pm), 8):
        l, r = struct.unpack_from("<II", pm, i)
        l, r = b.enc(l, r)
        out += struct.pack("<II", l, r)
    return bytes(out), pm


def bucket(n):
    for b in (0, 1, 2, 8, 32, 128, 512):
        if n <= b:
            return "<=%d" % b
    return ">512"
