"""C07 - written models re-read as the same model, including after edits.

Monitors: (1) round-trip identity monitor (dump equality, the library's own PartialEq on model_data,
file header bytes), (2) codec sweep (vertex / index sections of write(parse f) byte-identical to f),
(3) structural-invariant monitor on written bytes through an independent Python MDL parser,
(4) geometry monitor after edit histories on a live handle (C06's reference decoders applied to the
written file against the planted canonical streams)."""
import os, struct
from ..core import digest, REPO
from ..fmt import mdl
from . import c06

LEVEL = "exploration"
RULE = ("version-5 models generated with canonical encodings of every writer-supported (usage,type) pair (no NaN halves, position w=1, normal w=0, bitangent w in {0,255}, zero gap bytes); "
        "unedited: parse(write(parse f)) dump-equal, model_data ==, header bytes equal, vertex/index sections byte-identical (incl. sweeps over all 256 byte values and all non-NaN halves); "
        "edit histories of 1..4 (quick) / 1..8 (thorough) steps on a live handle out of {replace all parts of a LOD with new vertex counts 0..N / index lists / contiguous sub-mesh splits, "
        "remove_shape_meshes, add_shape_mesh}, after every step write -> independent parser (sections disjoint, in bounds, vertex size = sum count x stride, index size >= 2*sum and multiple "
        "of 16, stream offsets inside their section and non-overlapping, counts equal to the edit) and parse(written) == planted geometry; the repository's sample model through the same "
        "identity check. non-trivial = history with >= 1 size-changing edit; distinct = digest of the file + history")
ASSUMPTIONS = ["v5 only (README declares written Dawntrail models broken)", "the writer's unsupported encodings (Tangent, UV/Half2, UV/ByteFloat4, UShort4 pairs) are generated and a panic there is keyed by (usage,type)",
               "sample model is not canonical (position w stored 0): raw streams exempt for it"]

CANON_PAIRS = [p for p in mdl.WRITER_PAIRS if p != (mdl.BLENDWEIGHTS, mdl.BYTE4)]


def plan(tier):
    if tier == "quick":
        return [("debug", 16, dict(n=40, steps=4, maxv=400, sweep="small")), ("release", 4, dict(n=25, steps=4, maxv=400, sweep="none"))]
    return [("debug", 16, dict(n=220, steps=8, maxv=65535, sweep="full")), ("release", 8, dict(n=120, steps=6, maxv=8000, sweep="none")), ("asan", 4, dict(n=25, steps=4, maxv=1500, sweep="none"))]


def canon_half(h):
    if (h & 0x7C00) == 0x7C00 and (h & 0x3FF):
        return h & 0x83FF | 0x3800  # NaN -> some finite value
    return h


def canon_stream(rng, els, strides, nstreams, vcount, nice_position=False):
    """canonical stream bytes: what the writer itself would emit for the decoded values"""
    streams = [bytearray(vcount * strides[s]) for s in range(nstreams)]
    for (s, off, t, u, _) in els:
        for v in range(vcount):
            p = strides[s] * v + off
            if t in (mdl.SINGLE3, mdl.SINGLE4):
                n = 3 if t == mdl.SINGLE3 else 4
                if nice_position and u == mdl.POSITION:
                    vals = [c06.nice_f32(rng) for _ in range(n)]
                else:
                    vals = [mdl.f32bits(rng.uniform(-100, 100)) if rng.random() < 0.9 else rng.choice([0, 0x80000000, 0x3F800000, 0x7F7FFFFF, 1]) for _ in range(n)]
                if t == mdl.SINGLE4 and u == mdl.POSITION:
                    vals[3] = 0x3F800000
                struct.pack_into("<%dI" % n, streams[s], p, *vals)
            elif t == mdl.HALF4:
                vals = [canon_half(rng.getrandbits(16)) for _ in range(4)]
                if u == mdl.POSITION:
                    vals[3] = 0x3C00
                if u == mdl.NORMAL:
                    vals[3] = 0
                struct.pack_into("<4H", streams[s], p, *vals)
            elif t in (mdl.BYTEFLOAT4, mdl.BYTE4):
                vals = [rng.randrange(256) for _ in range(4)]
                if u == mdl.BITANGENT:
                    vals[3] = rng.choice([0, 255])
                streams[s][p:p + 4] = bytes(vals)
    # neighbouring vertices that compare equal as numbers but are not the same bits: a copy of the vertex before it in which one zero
    # component has the other sign (0.0 == -0.0); each must be written with its own bits
    if vcount >= 2 and rng.random() < 0.5:
        fl = [(s, off, t) for (s, off, t, u, _) in els if t in (mdl.SINGLE3, mdl.SINGLE4, mdl.HALF4)]
        for _ in range(rng.choice([1, 1, 3])):
            v = rng.randrange(1, vcount)
            for s in range(nstreams):
                streams[s][strides[s] * v:strides[s] * (v + 1)] = streams[s][strides[s] * (v - 1):strides[s] * v]
            if fl:
                s, off, t = rng.choice(fl)
                c = rng.randrange(3)
                a, b = (0, 1) if rng.random() < 0.5 else (1, 0)
                if t == mdl.HALF4:
                    struct.pack_into("<H", streams[s], strides[s] * (v - 1) + off + 2 * c, 0x8000 * a)
                    struct.pack_into("<H", streams[s], strides[s] * v + off + 2 * c, 0x8000 * b)
                else:
                    struct.pack_into("<I", streams[s], strides[s] * (v - 1) + off + 4 * c, 0x80000000 * a)
                    struct.pack_into("<I", streams[s], strides[s] * v + off + 4 * c, 0x80000000 * b)
    return [bytes(x) for x in streams]


def gen_canonical(rng, maxv):
    m = c06.gen_model(rng, min(maxv, 300), pairs=CANON_PAIRS, version=0x1000005, canonical=True)
    for l in m["lods"]:
        for me in l:
            me["streams"] = canon_stream(rng, me["elements"], me["strides"], me["nstreams"], me["vcount"], nice_position=me.get("shape_mesh"))
            if me["nstreams"] < 3 and rng.random() < 0.3:
                me["unused_stride"] = rng.choice([1, 4, 20, 255])      # a stride slot beyond the stream count is not part of the layout
    return m


def consistency(ctx, w, m, files, label):
    """structural invariants of a written file, decided by the independent parser"""
    try:
        p = mdl.parse_file(w)
    except (struct.error, ValueError, IndexError) as e:
        ctx.violation("written", dict(sub="unparsable_by_independent_parser"), dict(error=str(e), length=len(w), label=label), files=files)
        return None
    bad = []
    fh = p["fh"]
    nl = len(m["lods"])
    secs = []
    for li in range(nl):
        L = p["lods"][li]
        ms = [p["meshes"][j] for j in range(L["mesh_index"], L["mesh_index"] + L["mesh_count"]) if j < len(p["meshes"])]
        if L["mesh_count"] != len(m["lods"][li]):
            bad.append("lod%d mesh_count %d != %d" % (li, L["mesh_count"], len(m["lods"][li])))
            continue
        vsum = sum(me["vertex_count"] * sum(me["strides"][:me["stream_count"]]) for me in ms)
        isum = sum(me["index_count"] for me in ms)
        if L["vertex_buffer_size"] != vsum:
            bad.append("lod%d vertex_buffer_size %d != sum(count*stride) %d" % (li, L["vertex_buffer_size"], vsum))
        if L["index_buffer_size"] < 2 * isum or L["index_buffer_size"] % 16:
            bad.append("lod%d index_buffer_size %d (need >= %d, multiple of 16)" % (li, L["index_buffer_size"], 2 * isum))
        if fh["vertex_offsets"][li] != L["vertex_data_offset"] or fh["index_offsets"][li] != L["index_data_offset"] or fh["vertex_sizes"][li] != L["vertex_buffer_size"] or fh["index_sizes"][li] != L["index_buffer_size"]:
            bad.append("lod%d file header and lod record disagree" % li)
        secs.append(("v%d" % li, L["vertex_data_offset"], L["vertex_buffer_size"]))
        secs.append(("i%d" % li, L["index_data_offset"], L["index_buffer_size"]))
        # streams inside the section, non-overlapping
        spans = []
        for mi, (me, em) in enumerate(zip(ms, m["lods"][li])):
            if me["vertex_count"] != em["vcount"] or me["index_count"] != len(em["indices"]):
                bad.append("lod%d mesh%d counts (%d,%d) != edit (%d,%d)" % (li, mi, me["vertex_count"], me["index_count"], em["vcount"], len(em["indices"])))
            for s in range(me["stream_count"]):
                n = me["vertex_count"] * me["strides"][s]
                if n:
                    spans.append((me["offsets"][s], n, "mesh%d.s%d" % (mi, s)))
                    if me["offsets"][s] + n > L["vertex_buffer_size"]:
                        bad.append("lod%d mesh%d stream%d [%d,+%d) outside vertex section of %d" % (li, mi, s, me["offsets"][s], n, L["vertex_buffer_size"]))
            if 2 * (me["start_index"] + me["index_count"]) > L["index_buffer_size"]:
                bad.append("lod%d mesh%d indices outside index section" % (li, mi))
        spans.sort()
        for (a, n, x), (b, k, y) in zip(spans, spans[1:]):
            if a + n > b:
                bad.append("lod%d streams %s and %s overlap" % (li, x, y))
    if fh["stack_size"] != p["stack_end"] - 0x44 or fh["runtime_size"] != p["runtime_end"] - p["stack_end"]:
        bad.append("stack/runtime size (%d,%d) != walked (%d,%d)" % (fh["stack_size"], fh["runtime_size"], p["stack_end"] - 0x44, p["runtime_end"] - p["stack_end"]))
    live = [(n, o, z) for n, o, z in secs if z]
    for n, o, z in live:
        if o < p["runtime_end"] or o + z > len(w):
            bad.append("section %s [%d,%d) outside data area [%d,%d)" % (n, o, o + z, p["runtime_end"], len(w)))
    live.sort(key=lambda x: x[1])
    for (n1, o1, z1), (n2, o2, z2) in zip(live, live[1:]):
        if o1 + z1 > o2:
            bad.append("sections %s and %s overlap" % (n1, n2))
    if bad:
        kinds = sorted({b.split(" ", 1)[1].split(" ")[0] if b.startswith("lod") else b.split(" ")[0] for b in bad})
        ctx.violation("written", dict(sub="inconsistent_header", what="+".join(kinds)[:100]), dict(problems=bad[:8], label=label), files=files)
    return p


def identity(ctx, data, f, m, label, exempt_streams=False):
    """returns the live handle of the parsed original (or None)"""
    d1 = ctx.path("a.dump"); d2 = ctx.path("b.dump"); out = ctx.path("w.mdl")
    r = ctx.call("mdl.parse", f, d1, "keep", input_bytes=len(data))
    if not ctx.check_mon(r, len(data), residual=False, files=[f]) or not r.ok:
        if r.outcome == "none":
            ctx.violation("identity", dict(sub="valid_model_rejected"), dict(label=label), files=[f])
        return None
    h1 = r.value["handle"]
    rw = ctx.call("mdl.write", h1, out, input_bytes=len(data))
    if not ctx.check_mon(rw, len(data), files=[f]) or not rw.ok:
        if rw.outcome == "none":
            ctx.violation("identity", dict(sub="write_failed"), dict(label=label), files=[f])
        return h1
    w = ctx.read("w.mdl")
    if w[:0x44] != data[:0x44]:
        ctx.violation("identity", dict(sub="file_header_changed"), dict(got=w[:0x44].hex(), expected=data[:0x44].hex(), label=label), files=[f])
    r2 = ctx.call("mdl.parse", out, d2, "keep", input_bytes=len(w))
    ctx.check_mon(r2, len(w), residual=False, files=[f, out])
    if r2.outcome == "none":
        ctx.violation("identity", dict(sub="written_model_rejected"), dict(label=label), files=[f, out])
        return h1
    if not r2.ok:
        return h1
    h2 = r2.value["handle"]
    a, b = ctx.read("a.dump"), ctx.read("b.dump")
    if exempt_streams:
        da, db = mdl.parse_dump(a), mdl.parse_dump(b)
        for d in (da, db):
            for l in d["lods"]:
                for p in l:
                    p["streams"] = [(s, len(x)) for s, x in p["streams"]]
        same = da == db
    else:
        same = a == b
    if not same:
        da, db = mdl.parse_dump(a), mdl.parse_dump(b)
        what = []
        if da["bones"] != db["bones"] or da["materials"] != db["materials"]:
            what.append("names")
        for li, (la, lb) in enumerate(zip(da["lods"], db["lods"])):
            for mi, (pa, pb) in enumerate(zip(la, lb)):
                for k in ("nverts", "verts", "indices", "submeshes", "shapes", "streams", "material"):
                    if pa[k] != pb[k]:
                        what.append(k)
        ctx.violation("identity", dict(sub="reparse_differs", what="+".join(sorted(set(what))) or "structure"), dict(label=label), files=[f, out])
    re = ctx.call("mdl.eq", h1, h2)
    if re.ok and re.value is not True:
        ctx.violation("identity", dict(sub="model_data_not_equal"), dict(label=label), files=[f, out])
    ctx.call("drop", h2)
    return h1, w


def sections_equal(ctx, data, w, info, label, files):
    for li in range(3):
        for nm, off, size in (("vertex", info["voffs"][li], info["vsizes"][li]), ("index", info["ioffs"][li], info["isizes"][li])):
            if size and w[off:off + size] != data[off:off + size]:
                got = w[off:off + size]
                exp = data[off:off + size]
                fd = next((i for i in range(min(len(got), len(exp))) if got[i] != exp[i]), min(len(got), len(exp)))
                ctx.violation("codec", dict(sub="section_bytes_differ", section=nm), dict(lod=li, first_diff=fd, got_len=len(got), expected_len=len(exp), label=label), files=files)


def records_for(me):
    return b"".join(mdl.primary_vertex_record(me["elements"], me["streams"], me["strides"], k) for k in range(me["vcount"]))


def shard(ctx):
    rng, P = ctx.rng, ctx.params
    if ctx.index == 0:
        sample(ctx)
        sweeps(ctx, rng, P["sweep"])
        unsupported_encoders(ctx, rng)
    # a bystander model stays parsed on a live handle while all other models of the shard are parsed, edited, written and dropped:
    # what it writes must stay byte-identical to what it wrote first
    bm = gen_canonical(rng, 200)
    bdata, _ = mdl.build(bm)
    bf = ctx.write("bystander.mdl", bdata)
    br = ctx.call("mdl.parse", bf, "-", "keep", input_bytes=len(bdata))
    bh, bfirst = (br.value["handle"], None) if br.ok else (None, None)
    for i in range(P["n"]):
        history_case(ctx, rng, P)
        if bh is not None and (i % 8 == 0 or i == P["n"] - 1):
            bout = ctx.path("bystander.out")
            rw = ctx.call("mdl.write", bh, bout, input_bytes=len(bdata))
            if rw.ok:
                w = ctx.read("bystander.out")
                ctx.case(("bystander", ctx.index, i), True, ["bystander-handle"])
                if bfirst is None:
                    bfirst = w
                elif w != bfirst:
                    ctx.violation("identity", dict(sub="bystander_handle_changed"), dict(after_cases=i), files=[bf])
    if bh is not None:
        ctx.call("drop", bh)


def sample(ctx):
    p = os.path.join(REPO, "resources/tests/c0201e0038_top_zeroed.mdl")
    data = open(p, "rb").read()
    ctx.case("sample-model", True, ["sample"])
    r = identity(ctx, data, p, None, "sample", exempt_streams=True)
    if isinstance(r, tuple):
        ctx.call("drop", r[0])


def sweeps(ctx, rng, which):
    if which == "none":
        return
    # all 256 byte values per normalised-byte component (bitangent w restricted to its canonical 0/255)
    els = [(0, 0, mdl.BYTEFLOAT4, mdl.COLOR, 0), (0, 4, mdl.BYTEFLOAT4, mdl.BLENDWEIGHTS, 0), (0, 8, mdl.BYTE4, mdl.BLENDINDICES, 0), (0, 12, mdl.BYTEFLOAT4, mdl.BITANGENT, 0)]
    stream = bytearray(b"".join(bytes(((k + 37 * c) % 256) for c in range(16)) for k in range(256)))
    for k in range(256):
        stream[16 * k + 15] = 255 if k % 2 else 0
    meshes = [dict(elements=els, strides=[16], nstreams=1, vcount=256, streams=[bytes(stream)], indices=[0, 1, 2, 3], submeshes=[(4, 0, 0, 0)], material=0, bone_table=0)]
    models = [("byte-sweep", meshes)]
    halves = [h for h in range(0, 65536, 1 if which == "full" else 13) if not ((h & 0x7C00) == 0x7C00 and (h & 0x3FF))]
    els = [(0, 0, mdl.HALF4, mdl.UV, 0), (0, 8, mdl.HALF4, mdl.POSITION, 0), (1, 0, mdl.HALF4, mdl.NORMAL, 0)]
    for lo in range(0, len(halves), 32000):
        ch = halves[lo:lo + 32000]
        n = len(ch)
        s0 = b"".join(struct.pack("<8H", ch[i], ch[(i + 1) % n], ch[(i + 2) % n], ch[(i + 3) % n], ch[(i + 5) % n], ch[(i + 7) % n], ch[(i + 11) % n], 0x3C00) for i in range(n))
        s1 = b"".join(struct.pack("<4H", ch[(i + 13) % n], ch[(i + 17) % n], ch[(i + 19) % n], 0) for i in range(n))
        models.append(("half-sweep", [dict(elements=els, strides=[16, 8], nstreams=2, vcount=n, streams=[s0, s1], indices=list(range(min(n, 48))), submeshes=[(min(n, 48), 0, 0, 0)], material=0, bone_table=0)]))
    for label, meshes in models:
        m = dict(version=0x1000005, lods=[meshes], materials=["m.mtrl"], bones=[], attributes=[], bone_tables=[], submesh_bone_map=[], padding=0, element_ids=[], gap=0, header={}, shapes=[])
        data, info = mdl.build(m)
        f = ctx.write("s.mdl", data)
        ctx.case(digest(data), True, [label], sample=dict(sweep=label, vertices=meshes[0]["vcount"]))
        r = identity(ctx, data, f, m, label)
        if isinstance(r, tuple):
            h, w = r
            sections_equal(ctx, data, w, info, label, [f])
            consistency(ctx, w, m, [f], label)
            ctx.call("drop", h)


def unsupported_encoders(ctx, rng):
    """encodings the reader accepts but the writer does not implement: generated, a panic is a finding keyed by the pair"""
    for pair in [p for p in mdl.READER_PAIRS if p not in mdl.WRITER_PAIRS] + [(mdl.BLENDWEIGHTS, mdl.BYTE4)]:
        u, t = pair
        els = [(0, 0, mdl.SINGLE3, mdl.POSITION, 0), (0, 12, t, u, 0)] if u != mdl.POSITION else [(0, 0, t, u, 0)]
        stride = 12 + mdl.TYPE_SIZE[t]
        me = dict(elements=els, strides=[stride], nstreams=1, vcount=3, streams=[(bytes(12) + bytes((37 * k + 64) % 256 for k in range(mdl.TYPE_SIZE[t]))) * 3 if u != mdl.POSITION else bytes(3 * stride)], indices=[0, 1, 2], submeshes=[(3, 0, 0, 0)], material=0, bone_table=0)
        m = dict(version=0x1000005, lods=[[me]], materials=["m.mtrl"], bones=[], attributes=[], bone_tables=[], submesh_bone_map=[], padding=0, element_ids=[], gap=0, header={}, shapes=[])
        data, info = mdl.build(m)
        f = ctx.write("u.mdl", data)
        name = "%s/%s" % (mdl.USAGE_NAME[u], mdl.TYPE_NAME[t])
        ctx.case(digest(data), True, ["encoder:" + name])
        r = ctx.call("mdl.parse", f, "-", "keep", input_bytes=len(data))
        if not r.ok:
            continue
        h = r.value["handle"]
        rw = ctx.call("mdl.write", h, ctx.path("u.out"), input_bytes=len(data))
        if rw.outcome == "panic":
            ctx.violation("encoder", dict(sub="C07/encoder", cls=name), dict(panic=rw.get("panic")), files=[f])
        elif rw.ok:
            w = ctx.read("u.out")
            if w[info["voffs"][0]:info["voffs"][0] + info["vsizes"][0]] != data[info["voffs"][0]:info["voffs"][0] + info["vsizes"][0]]:
                ctx.violation("encoder", dict(sub="C07/encoder", cls=name), dict(what="decoded vertices are not re-encoded to the stored bytes"), files=[f])
        ctx.call("drop", h)


def history_case(ctx, rng, P):
    m = gen_canonical(rng, P["maxv"])
    data, info = mdl.build(m)
    f = ctx.write("h.mdl", data)
    nsteps = rng.randint(0, P["steps"])
    steps = []
    loose = rng.random() < 0.2
    if loose:
        # a parseable model whose vertex streams are stored in another order with unused bytes between them (C06's layout freedom):
        # outside the identity clause (the writer packs the streams), inside the edit clause - after an edit of one LOD every LOD,
        # also the untouched ones, must come back with its geometry and a consistent header
        m["stream_shuffle_seed"] = rng.getrandbits(30)
        m["packed_indices"] = True      # (index runs with unused indices between them are written back inconsistently even unedited: out of domain, DESIGN 13)
        data, info = mdl.build(m)
        f = ctx.write("h.mdl", data)
        nsteps = max(1, nsteps)
        ctx.stats.classes["edit-history-on:streams-shuffled-with-gaps"] += 1
        r0 = ctx.call("mdl.parse", f, ctx.path("a.dump"), "keep", input_bytes=len(data))
        if not ctx.check_mon(r0, len(data), residual=False, files=[f]) or not r0.ok:
            return
        r = (r0.value["handle"], data)
    else:
        r = identity(ctx, data, f, m, "unedited")
    hist_key = digest(data, nsteps, rng.random())
    if not isinstance(r, tuple):
        ctx.case(hist_key, False, ["history:0"])
        return
    h, w = r
    if not loose:
        sections_equal(ctx, data, w, info, "unedited", [f])
    if loose:
        pass
    elif not m.get("lodrec_junk"):
        consistency(ctx, w, m, [f], "unedited")      # (an unedited file with stale LOD-record copies is written back with them)
    else:
        ctx.stats.classes["lod-record-offset-copies:stale"] += 1
    size_changing = False
    out = ctx.path("e.mdl"); dump = ctx.path("e.dump")
    for step in range(nsteps):
        kind = rng.choice(["replace", "replace", "replace", "remove_shapes", "add_shape"])
        if kind == "add_shape" and not (m["shapes"] and all(not any(sh["per_lod"][li] for li in range(3)) for sh in m["shapes"]) or m.get("_adding")):
            kind = "replace"
        if kind == "replace":
            li = rng.randrange(len(m["lods"]))
            so = 0
            cmds = []
            for pi, me in enumerate(m["lods"][li]):
                mode = rng.choice(["grow", "shrink", "same", "empty", "big"])
                old = me["vcount"]
                nv = {"grow": old + rng.randint(1, 50), "shrink": rng.randint(0, old), "same": old, "empty": 0, "big": rng.randint(0, P["maxv"]) if rng.random() < 0.15 else old + 1}[mode]
                nv = min(nv, 65535)
                if me.get("shape_mesh") and any(sh["per_lod"][li] for sh in m["shapes"]):
                    nv = max(nv, 2)
                ni = rng.choice([0, 3, 6, 31, rng.randint(0, 600)])
                if me.get("shape_mesh"):
                    ni = max(ni, 1)
                me["vcount"] = nv
                me["streams"] = canon_stream(rng, me["elements"], me["strides"], me["nstreams"], nv, nice_position=me.get("shape_mesh"))
                me["indices"] = [rng.randrange(max(nv, 1)) for _ in range(ni)]
                nsub = len(me["submeshes"])
                cuts = sorted(rng.randint(0, ni) for _ in range(nsub - 1))
                bounds = [0] + cuts + [ni]
                me["submeshes"] = [(bounds[i + 1] - bounds[i],) + tuple(me["submeshes"][i][1:]) for i in range(nsub)]
                subspec = []
                for (cnt, _, _, _) in me["submeshes"]:
                    subspec.append("%d,%d" % (cnt, so)); so += cnt
                vf = ctx.write("v%d.bin" % pi, records_for(me))
                xf = ctx.write("i%d.bin" % pi, b"".join(struct.pack("<H", i) for i in me["indices"]))
                # where the SubMesh values come from: the part's own list (in order or reversed) or another part's list of the same length
                src = "own"
                if rng.random() < 0.35:
                    cands = [(l2, p2) for l2, ll in enumerate(m["lods"]) for p2, m2 in enumerate(ll) if (l2, p2) != (li, pi) and len(m2["submeshes"]) == nsub]
                    if nsub >= 2 and (not cands or rng.random() < 0.5):
                        src = "rev"
                    elif cands:
                        src = "tpl=%d,%d" % rng.choice(cands)
                ctx.stats.classes["replace-submesh-values:" + src.split("=")[0]] += 1
                cmds.append((li, pi, vf, xf, ";".join(subspec), src))
                size_changing |= nv != old
            # start indices of the model follow the supplied sub-mesh offsets
            st = 0
            for me in m["lods"][li]:
                me["_start_index"] = st
                st += len(me["indices"])
            bad_call = False
            for (li_, pi, vf, xf, ss, src) in cmds:
                rr = ctx.call("mdl.replace", h, li_, pi, vf, xf, ss, *([src] if src != "own" else []), input_bytes=os.path.getsize(vf) + len(data))
                if not ctx.check_mon(rr, os.path.getsize(vf) + len(data), residual=False, files=[f]) or not rr.ok:
                    bad_call = True
                    break
            steps.append(("replace", li, [(me["vcount"], len(me["indices"])) for me in m["lods"][li]]))
            if bad_call:
                break
        elif kind == "remove_shapes":
            rr = ctx.call("mdl.remove_shapes", h)
            if not ctx.check_mon(rr, len(data), residual=False, files=[f]) or not rr.ok:
                break
            for sh in m["shapes"]:
                sh["per_lod"] = [[], [], []]
            m["_adding"] = True
            steps.append(("remove_shapes",))
        else:
            # add one shape mesh on the first part of a LOD for the next shape that has none there
            cand = [(si, li) for si, sh in enumerate(m["shapes"]) for li in range(len(m["lods"])) if not sh["per_lod"][li] and m["lods"][li][0].get("shape_mesh") and m["lods"][li][0]["indices"]]
            # "assuming they are added in order": only append at the end of the shape-mesh table
            cand = [c for c in cand if all(not m["shapes"][s2]["per_lod"][l2] for s2 in range(c[0] + 1, len(m["shapes"])) for l2 in range(3))
                    and all(not m["shapes"][c[0]]["per_lod"][l2] for l2 in range(c[1] + 1, 3))]
            if not cand:
                continue
            si, li = cand[0]
            me = m["lods"][li][0]
            nvals = rng.randint(1, 3)
            vals = []
            recs = b""
            for _ in range(nvals):
                base = rng.randrange(len(me["indices"]))
                one = canon_stream(rng, me["elements"], me["strides"], me["nstreams"], 1, nice_position=True)
                me["streams"] = [a + b for a, b in zip(me["streams"], one)]
                me["vcount"] += 1
                vals.append((base, me["vcount"] - 1))
                recs += struct.pack("<I", base) + mdl.primary_vertex_record(me["elements"], one, me["strides"], 0)
            sf = ctx.write("shape.bin", recs)
            rr = ctx.call("mdl.add_shape", h, li, si, 0, 0, sf, input_bytes=len(recs) + len(data))
            if not ctx.check_mon(rr, len(recs) + len(data), residual=False, files=[f]) or not rr.ok:
                break
            m["shapes"][si]["per_lod"][li] = [(0, vals)]
            size_changing = True
            steps.append(("add_shape", si, li, vals))
        # observe after every step
        label = "after %s" % (steps[-1][0] if steps else "nothing")
        rw = ctx.call("mdl.write", h, out, input_bytes=len(data))
        if not ctx.check_mon(rw, len(data) + 65535 * 92, files=[f]) or not rw.ok:
            break
        w = ctx.read("e.mdl")
        consistency(ctx, w, m, [f, out], label)
        rp = ctx.call("mdl.parse", out, dump, input_bytes=len(w))
        if not ctx.check_mon(rp, len(w), files=[out]):
            break
        if rp.outcome == "none":
            ctx.violation("identity", dict(sub="written_model_rejected", after=steps[-1][0]), dict(history=steps[-4:]), files=[f, out])
            break
        d = mdl.parse_dump(ctx.read("e.dump"))
        if not c06.check_model(ctx, m, d, [f, out], label):
            ctx.stats.samples.append(dict(failing_history=[str(s)[:120] for s in steps[-4:]]))
            break
        ctx.stats.classes["step:" + steps[-1][0]] += 1
    ctx.call("drop", h)
    ctx.case(hist_key, size_changing, ["history:%d" % min(len(steps), 8), "lods:%d" % len(m["lods"])] + sorted({"edit:" + s[0] for s in steps}),
             sample=dict(history=[str(s)[:100] for s in steps[:4]]))


def prune_shapes(m):
    """the reader skips shape values that no longer address existing indices / vertices"""
    out = dict(m)
    shapes = []
    for sh in m["shapes"]:
        per = []
        for li in range(3):
            ent = []
            for (mp, vals) in (sh["per_lod"][li] if li < len(sh["per_lod"]) else []):
                me = m["lods"][li][mp]
                keep = [(b, r) for (b, r) in vals if b < len(me["indices"]) and me["indices"][b] < me["vcount"] and r < me["vcount"]]
                ent.append((mp, keep))
            per.append(ent)
        shapes.append(dict(name=sh["name"], per_lod=per))
    out["shapes"] = shapes
    return out
