"""C14 - materials and shader packages decode to what their files store.

Monitor: reference-model monitor; ground truth = values planted by independent MTRL / SHPK builders;
private fields are observed through the Debug rendering, parsed by vlib/fmt/rustdbg.py."""
import struct
from ..core import digest
from ..fmt import mtrl, shpk, rustdbg

LEVEL = "exploration"
RULE = ("random materials (0..6 textures, uv/colour sets, contiguous string heap, additional-data flags selecting no table / legacy 16-row / Dawntrail 32-row colour tables with "
        "arbitrary distinct half patterns per component, dye tables, 0..6 keys, constants of 1..4 floats, samplers over all usage codes) and shader packages (DX9/DX11, 0..4 vertex / pixel "
        "shaders with parameters and blobs, material parameters with/without defaults, key tables, 0..6 nodes with passes, aliases); field-by-field equality, find_node for every node / alias / "
        "unknown selector, build_selector* vs sum(key_i*31^i) mod 2^32 in Python. non-trivial = material with a colour table or >= 1 constant / package with >= 1 node; distinct = digest of the file")
ASSUMPTIONS = ["MTRL/SHPK layouts as in Lumina/Penumbra",
               "a vertex shader blob = 8 bytes of additional data + bytecode, its stored size covering both (Penumbra's convention), for both DX tags"]


def plan(tier):
    if tier == "quick":
        return [("debug", 16, dict(n=60)), ("release", 4, dict(n=40)), ("asan", 2, dict(n=15))]
    return [("debug", 16, dict(n=2000)), ("release", 8, dict(n=1000)), ("asan", 4, dict(n=200)), ("memcheck", 2, dict(n=12)),
            ("miri", 2, dict(n=1))]       # incl. the shared-object lookups under Miri's data-race detector


NAME = b"abcdefghijklmnopqrstuvwxyzABCDEFGHIJKLMNOPQRSTUVWXYZ0123456789_/."


def name(rng, a=1, b=20):
    return bytes(rng.choice(NAME) for _ in range(rng.randint(a, b)))


def halfword(rng):
    k = rng.random()
    if k < 0.7:
        return rng.getrandbits(16)
    return rng.choice([0, 0x8000, 0x3C00, 0xBC00, 0x7BFF, 0x0001, 0x7C00, 0xFC00, 0x7E00, 0x03FF])


def shard(ctx):
    rng, P = ctx.rng, ctx.params
    from .. import faults, seeds
    fr = __import__("random").Random("c14-failing-%d-%d" % (ctx.seed, ctx.index))
    badm = [ctx.write("failing-%d.mtrl" % i, d) for i, d in enumerate(x for _, data, _ in seeds.seeds_mtrl(fr)[:3] for x in faults.damaged_variants(fr, data, 3))]
    bads = [ctx.write("failing-%d.shpk" % i, d) for i, d in enumerate(x for _, data, _ in seeds.seeds_shpk(fr)[:2] for x in faults.damaged_variants(fr, data, 3))]
    ctx.failing_calls_first([("mtrl.parse", (b,)) for b in badm] + [("shpk.parse", (b,)) for b in bads], before=("mtrl.parse", "shpk.parse", "shpk.find_node"))
    for _ in range(P["n"]):
        mtrl_case(ctx, rng)
        shpk_case(ctx, rng)
    for _ in range(60):
        selector_case(ctx, rng)


def f32eq(printed, bits):
    return rustdbg.f32_equal(printed, bits)


def gen_material(rng, mode=None):
    mode = mode or rng.choice(["none", "none4", "legacy", "legacy+dye", "dt", "dt+dye", "legacy42", "opaque", "short", "dye-only-5x"])
    m = dict(textures=[name(rng, 3, 40) + b".tex" for _ in range(rng.choice([0, 1, 2, 4, 6]))],
             uv_sets=[(name(rng, 1, 8), rng.randrange(4)) for _ in range(rng.choice([0, 1, 2]))],
             color_sets=[(name(rng, 1, 8), rng.randrange(4)) for _ in range(rng.choice([0, 1]))],
             shpk=name(rng, 1, 24) + b".shpk", tex_flags=rng.choice([0, 0x8000]), version=rng.choice([0x1030000, 0x1030001, rng.getrandbits(32)]))
    large = rng.random() < 0.12
    if large:
        # counts and heap sizes that cross the 8-bit / 12-bit / 15-bit boundaries of the offset and count fields (heap stays < 64 KiB: offsets are u16)
        nt = rng.choice([50, 128, 200, 255])
        lim = rng.choice([5000, 20000, 40000, 62000]) // nt
        m["textures"] = [name(rng, max(3, lim - 30), max(4, lim - 6)) + b".tex" for _ in range(nt)]
        m["uv_sets"] = [(name(rng, 1, 8), rng.randrange(4)) for _ in range(rng.choice([0, 2, 40, 255]))]
        m["color_sets"] = [(name(rng, 1, 8), rng.randrange(4)) for _ in range(rng.choice([0, 1, 40]))]
    if m["textures"] and not large and rng.random() < 0.15:
        # a path stored as the tail of another one (offsets may point into the middle of a stored string)
        # ... also directly behind the path it is a tail of, and with multi-byte characters in front of the shared part
        i0 = rng.randrange(len(m["textures"]))
        t0 = m["textures"][i0]
        cut = rng.randrange(1, max(2, len(t0) - 4))
        if rng.random() < 0.5:
            t0 = t0[:cut] + rng.choice(["é", "日本", "ß/ñ", "€"]).encode("utf-8") + t0[cut:]
            cut += len(t0) - len(m["textures"][i0])
            m["textures"][i0] = t0
            m["nonascii_path"] = True
        m["textures"].insert(i0 + 1 if rng.random() < 0.7 else len(m["textures"]), t0[cut:] if m.get("nonascii_path") else t0[rng.randrange(1, max(2, len(t0) - 4)):])
        m["share_suffix"] = True
    if len(m["textures"]) >= 2 and rng.random() < 0.3 and not m.get("share_suffix"):
        order = list(range(len(m["textures"]))); rng.shuffle(order)
        m["heap_order"] = order
        m["heap_prefix"] = rng.choice([b"", b"", b"pad\0"])
    flags = {"none4": 0, "legacy": 0x4, "legacy+dye": 0xC, "dt": 0x4 | (0x53 << 4), "dt+dye": 0xC | (0x53 << 4), "legacy42": 0x4 | (0x42 << 4), "opaque": 0xC | (0x77 << 4)}.get(mode)
    if mode == "dye-only-5x":
        # a Dawntrail dye table (every dimension byte 0x50..0x5F selects it) without a colour table
        flags = 0x8 | (rng.choice([0x50, 0x51, 0x53, 0x5A, 0x5E, 0x5F]) << 4)
    extra_bits = rng.choice([0, 0, 0x1, 0x2, 0x10000, 0xABC00000])
    if mode in ("none",):
        m["additional"] = b""
    elif mode == "short":
        m["additional"] = bytes(rng.randrange(256) for _ in range(rng.choice([1, 2, 3]))) 
    else:
        m["additional"] = struct.pack("<I", flags | extra_bits) + (rng.randbytes(4) if rng.random() < 0.1 else b"")
    rows = None
    dye = None
    if mode in ("legacy", "legacy+dye", "legacy42"):
        rows = [[halfword(rng) for _ in range(16)] for _ in range(16)]
    elif mode in ("dt", "dt+dye"):
        rows = [[halfword(rng) for _ in range(32)] for _ in range(32)]
    if mode == "legacy+dye":
        dye = [rng.getrandbits(16) for _ in range(16)]; m["dye_width"] = 2
    elif mode in ("dt+dye", "dye-only-5x"):
        dye = [rng.getrandbits(32) for _ in range(32)]; m["dye_width"] = 4
    m["color_rows"] = rows
    m["dye_rows"] = dye
    m["keys"] = [(rng.getrandbits(32), rng.getrandbits(32)) for _ in range(rng.choice([0, 1, 2, 6] + ([256, 300] if large else [])))]
    nval = rng.choice([0, 1, 4, 7, 16] + ([300, 1000] if large else []))
    m["values"] = [rng.choice([0, 0x3F800000, 0xBF800000, 0x7FC00000, rng.getrandbits(32)]) for _ in range(nval)]
    m["constants"] = []
    for _ in range(rng.choice([0, 1, 3, 6] + ([257, 400] if large else [])) if nval else 0):
        cnt = rng.randint(1, min(4, nval))
        first = rng.randint(0, nval - cnt)
        cid = rng.getrandbits(32) if not (m["constants"] and rng.random() < 0.15) else rng.choice(m["constants"])[0]     # the same id may be stored twice
        m["constants"].append((cid, first * 4, cnt * 4))
    m["samplers"] = [(rng.choice(list(mtrl.USAGES)), rng.getrandbits(32), rng.randrange(256), rng.randrange(256), rng.randrange(256), rng.randrange(256))
                     for _ in range(rng.choice([0, 1, 2, 5] + ([256, 300] if large else [])))]
    m["large"] = large
    m["mat_flags"] = rng.getrandbits(32)
    return m, mode, rows, dye


def mtrl_case(ctx, rng):
    m, mode, rows, dye = gen_material(rng)
    data = mtrl.build(m)
    f = ctx.write("m.mtrl", data)
    ctx.case(digest(data), rows is not None or bool(m["constants"]), ["mtrl", "mtrl-mode:" + mode, "mtrl-tex:%s" % (len(m["textures"]) if len(m["textures"]) <= 6 else ">6"), "mtrl-strings:%s" % ("<4KiB" if len(b"".join(m["textures"])) < 4000 else "<32KiB" if len(b"".join(m["textures"])) < 32000 else ">=32KiB"), "mtrl-heap:" + ("permuted" if m.get("heap_order") else "shared-tail" if m.get("share_suffix") else "sequential")],
             sample=dict(mode=mode, textures=[t.decode() for t in m["textures"][:2]], shpk=m["shpk"].decode(), constants=len(m["constants"]), samplers=len(m["samplers"])))
    rec = ctx.call("mtrl.parse", f, input_bytes=len(data))
    if not ctx.check_mon(rec, len(data), files=[f]):
        return
    if rec.outcome == "none":
        ctx.violation("decode", dict(sub="valid_material_rejected", mode=mode), {}, files=[f])
        return
    try:
        d = rustdbg.parse(rec.value)
    except rustdbg.ParseError as e:
        ctx.inconclusive("debug parse: %s" % e)
        return
    bad = {}
    if d["shader_package_name"] != m["shpk"].decode():
        bad["shader_package_name"] = (d["shader_package_name"], m["shpk"])
    # the property fixes no text encoding for paths (game data is ASCII): a path with bytes >= 0x80 may come back decoded as UTF-8 or
    # byte by byte - but as exactly its own stored bytes either way
    if d["texture_paths"] != [t.decode() for t in m["textures"]] and d["texture_paths"] != [t.decode("latin-1") for t in m["textures"]]:
        bad["texture_paths"] = (d["texture_paths"], m["textures"])
    if [(k["category"], k["value"]) for k in d["shader_keys"]] != m["keys"]:
        bad["shader_keys"] = d["shader_keys"]
    if len(d["constants"]) != len(m["constants"]):
        bad["constants_count"] = len(d["constants"])
    else:
        for c, (cid, off, size) in zip(d["constants"], m["constants"]):
            exp = m["values"][off // 4:off // 4 + size // 4]
            if c["id"] != cid or c["num_values"] != size // 4 or not all(f32eq(p, b) for p, b in zip(c["values"], exp)) or not all(f32eq(p, 0) for p in c["values"][size // 4:]):
                bad["constant"] = (c, cid, [hex(x) for x in exp])
    if len(d["samplers"]) != len(m["samplers"]):
        bad["samplers_count"] = len(d["samplers"])
    else:
        for s, (u, fl, idx, u1, u2, u3) in zip(d["samplers"], m["samplers"]):
            if (s["texture_usage"], s["flags"], s["texture_index"], s["unknown1"], s["unknown2"], s["unknown3"]) != (mtrl.USAGES[u], fl, idx, u1, u2, u3):
                bad["sampler"] = (s, (mtrl.USAGES[u], fl, idx))
    # colour table
    ct = d["color_table"]
    if mode in ("none", "none4", "short", "dye-only-5x"):
        if ct is not None:
            bad["color_table_unexpected"] = str(ct)[:100]
    elif mode == "opaque":
        if not (isinstance(ct, dict) and ct["_"] == "OpaqueColorTable"):
            bad["color_table_kind"] = str(ct)[:100]
    else:
        layout, kind = (mtrl.LEGACY_ROW, "LegacyColorTable") if mode.startswith("legacy") else (mtrl.DT_ROW, "DawntrailColorTable")
        if not (isinstance(ct, dict) and ct["_"] == kind):
            bad["color_table_kind"] = str(ct)[:100]
        else:
            grows = ct["0"]["rows"]
            if len(grows) != len(rows):
                bad["color_rows"] = len(grows)
            else:
                for ri, (g, words) in enumerate(zip(grows, rows)):
                    wi = 0
                    for fname, width in layout:
                        if width == "u16":
                            if g[fname] != words[wi]:
                                bad["row.%s" % fname] = (ri, g[fname], words[wi])
                            wi += 1
                        else:
                            vals = g[fname] if width > 1 else [g[fname]]
                            for ci in range(width):
                                eb = mtrl.half_to_f32_bits(words[wi + ci])
                                gv = vals[ci]
                                ok = (gv != gv) if eb is None else (gv == gv and rustdbg.f32_bits(gv) == eb)
                                if not ok:
                                    bad["row.%s[%d]" % (fname, ci)] = (ri, gv, hex(words[wi + ci]))
                            wi += width
    dt = d["color_dye_table"]
    if mode == "legacy+dye":
        if not (isinstance(dt, dict) and dt["_"] == "LegacyColorDyeTable" and len(dt["0"]["rows"]) == 16):
            bad["dye_kind"] = str(dt)[:100]
        else:
            for g, w in zip(dt["0"]["rows"], dye):
                exp = dict(template=w >> 5, **{n: bool(w & (1 << i)) for i, n in enumerate(mtrl.LEGACY_DYE)})
                if {k: g[k] for k in exp} != exp:
                    bad["dye_row"] = (g, hex(w))
    elif mode in ("dt+dye", "dye-only-5x"):
        if not (isinstance(dt, dict) and dt["_"] == "DawntrailColorDyeTable" and len(dt["0"]["rows"]) == 32):
            bad["dye_kind"] = str(dt)[:100]
        else:
            for g, w in zip(dt["0"]["rows"], dye):
                exp = dict(template=(w >> 16) & 0x7FF, channel=(w >> 27) & 3, **{n: bool(w & (1 << i)) for i, n in enumerate(mtrl.DT_DYE)})
                if {k: g[k] for k in exp} != exp:
                    bad["dye_row"] = (g, hex(w))
    elif mode == "opaque":
        if not (isinstance(dt, dict) and dt["_"] == "OpaqueColorDyeTable"):
            bad["dye_kind"] = str(dt)[:100]
    elif dt is not None:
        bad["dye_unexpected"] = str(dt)[:100]
    if bad:
        ctx.violation("decode", dict(sub="material_fields", mode=mode, heap="permuted" if m.get("heap_order") else "sequential", fields=",".join(sorted(k.split("[")[0] for k in bad))[:100]), dict(bad=repr(bad)[:1500]), files=[f])


def gen_param(rng):
    return dict(id=rng.getrandbits(32), name=name(rng, 1, 16), slot=rng.randrange(32), size=rng.choice([0, 4, 16, 64]), unknown=rng.getrandbits(16))


def gen_package(rng):
    nsys, nscene, nmat = rng.choice([0, 1, 2]), rng.choice([0, 1, 3]), rng.choice([0, 1, 2])
    def sh(is_v):
        return dict(code=rng.randbytes(rng.choice([0, 1, 9, 40, 200])), extra=rng.randbytes(8), scalars=[gen_param(rng) for _ in range(rng.choice([0, 1, 2]))],
                    resources=[gen_param(rng) for _ in range(rng.choice([0, 1]))], uavs=[gen_param(rng) for _ in range(rng.choice([0, 0, 1]))],
                    textures=[gen_param(rng) for _ in range(rng.choice([0, 1, 2]))])
    nnodes = rng.choice([0, 1, 2, 6])
    sels = rng.sample(range(1, 2 ** 32), nnodes + 4)
    nodes = []
    for i in range(nnodes):
        nodes.append(dict(selector=sels[i] if rng.random() < 0.9 or i == 0 else sels[0], passes=[(rng.getrandbits(32), rng.randrange(4), rng.randrange(4)) for _ in range(rng.choice([0, 1, 3]))],
                          idx=rng.randbytes(16), sys=[rng.getrandbits(32) for _ in range(nsys)], scene=[rng.getrandbits(32) for _ in range(nscene)],
                          mat=[rng.getrandbits(32) for _ in range(nmat)], sub=[rng.getrandbits(32), rng.getrandbits(32)]))
    aliases = [(sels[nnodes + j], rng.randrange(nnodes)) for j in range(rng.choice([0, 1, 3]))] if nnodes else []
    matsize = rng.choice([0, 4, 20, 64])
    p = dict(dx=rng.choice([b"DX11", b"DX9\0"]), version=rng.choice([0x0D01, 0x0B01]), vs=[sh(True) for _ in range(rng.choice([0, 1, 2, 4]))], ps=[sh(False) for _ in range(rng.choice([0, 1, 3]))],
             mat_params=[(rng.getrandbits(32), rng.randrange(0, 64, 4), rng.choice([4, 8, 16])) for _ in range(rng.choice([0, 1, 4]))], mat_size=matsize,
             defaults=[rng.getrandbits(32) for _ in range(matsize // 4)] if rng.random() < 0.5 else None,
             scalars=[gen_param(rng) for _ in range(rng.choice([0, 1, 2]))], samplers=[gen_param(rng) for _ in range(rng.choice([0, 1]))],
             textures=[gen_param(rng) for _ in range(rng.choice([0, 1]))], uavs=[gen_param(rng) for _ in range(rng.choice([0, 0, 1]))],
             sys_keys=[(rng.getrandbits(32), rng.getrandbits(32)) for _ in range(nsys)], scene_keys=[(rng.getrandbits(32), rng.getrandbits(32)) for _ in range(nscene)],
             mat_keys=[(rng.getrandbits(32), rng.getrandbits(32)) for _ in range(nmat)], sub1=rng.getrandbits(32), sub2=rng.getrandbits(32), nodes=nodes, aliases=aliases)
    return p, nodes, aliases, sels, nnodes


def shpk_case(ctx, rng):
    p, nodes, aliases, sels, nnodes = gen_package(rng)
    slack = rng.choice([0, 0, 0, 16])
    smode = rng.choice(["nul", "nul", "packed", "shared"])
    sfirst = rng.random() < 0.25
    data, info = shpk.build(p, slack, strings=smode, strings_first=sfirst)
    f = ctx.write("s.shpk", data)
    ctx.case(digest(data), nnodes >= 1, ["shpk", "shpk-strings:" + smode, "shpk-layout:%s" % ("strings-before-blobs" if sfirst else "blobs-before-strings"), "shpk-dx:" + p["dx"][:4].decode().strip("\0"), "shpk-vs:%d" % len(p["vs"]), "shpk-nodes:%d" % nnodes, "shpk-defaults:%d" % (p["defaults"] is not None)],
             sample=dict(vs=len(p["vs"]), ps=len(p["ps"]), nodes=nnodes, aliases=len(aliases), length=len(data)))
    rec = ctx.call("shpk.parse", f, input_bytes=len(data))
    if not ctx.check_mon(rec, len(data), residual=False, files=[f]):
        return
    if rec.outcome == "none":
        ctx.violation("decode", dict(sub="valid_package_rejected", vs="yes" if p["vs"] else "no"), dict(length=len(data), info=info), files=[f])
        return
    h = rec.value["handle"]
    try:
        d = rustdbg.parse(rec.value["debug"])
    except rustdbg.ParseError as e:
        ctx.inconclusive("debug parse: %s" % e)
        ctx.call("drop", h)
        return
    bad = {}

    def cmp_params(got, exp, where):
        if len(got) != len(exp):
            bad[where + "_count"] = (len(got), len(exp)); return
        for g, e in zip(got, exp):
            if (g["id"], g["unknown"], g["slot"], g["size"], g["name"]) != (e["id"], e["unknown"], e["slot"], e["size"], e["name"].decode()):
                bad[where] = (g, e)

    def cmp_shader(g, e, is_v, where):
        cmp_params(g["scalar_parameters"], e["scalars"], where + ".scalar")
        cmp_params(g["resource_parameters"], e["resources"], where + ".resource")
        cmp_params(g["uav_parameters"], e["uavs"], where + ".uav")
        cmp_params(g["texture_parameters"], e["textures"], where + ".texture")
        code = bytes(g["bytecode"])
        if is_v:
            if code != e["code"]:
                bad[where + ".bytecode"] = (len(code), len(e["code"]), code[:16].hex(), e["code"][:16].hex())
            if bytes(g["additional_data"]) != e["extra"]:
                bad[where + ".additional_data"] = (bytes(g["additional_data"][:16]).hex(), e["extra"].hex())
        elif code != e["code"]:
            bad[where + ".bytecode"] = (code[:16].hex(), e["code"][:16].hex())

    if d["format"] != p["dx"].decode().strip("\0") or d["version"] != p["version"]:
        bad["format"] = (d["format"], d["version"])
    if len(d["vertex_shaders"]) != len(p["vs"]) or len(d["pixel_shaders"]) != len(p["ps"]):
        bad["shader_count"] = (len(d["vertex_shaders"]), len(d["pixel_shaders"]))
    else:
        for i, (g, e) in enumerate(zip(d["vertex_shaders"], p["vs"])):
            cmp_shader(g, e, True, "vs")
        for i, (g, e) in enumerate(zip(d["pixel_shaders"], p["ps"])):
            cmp_shader(g, e, False, "ps")
    if [(m["id"], m["byte_offset"], m["byte_size"]) for m in d["material_parameters"]] != p["mat_params"] or d["material_parameters_size"] != p["mat_size"]:
        bad["material_parameters"] = d["material_parameters"]
    expd = p["defaults"] or []
    if len(d["mat_param_defaults"]) != len(expd) or not all(f32eq(g, e) for g, e in zip(d["mat_param_defaults"], expd)):
        bad["mat_param_defaults"] = (d["mat_param_defaults"][:4], [hex(x) for x in expd[:4]])
    cmp_params(d["scalar_parameters"], p["scalars"], "scalar_parameters")
    cmp_params(d["sampler_parameters"], p["samplers"], "sampler_parameters")
    cmp_params(d["texture_parameters"], p["textures"], "texture_parameters")
    cmp_params(d["uav_parameters"], p["uavs"], "uav_parameters")
    for nm, key in (("system_keys", "sys_keys"), ("scene_keys", "scene_keys"), ("material_keys", "mat_keys")):
        if [(k["id"], k["default_value"]) for k in d[nm]] != p[key]:
            bad[nm] = d[nm]
    if (d["sub_view_key1_default"], d["sub_view_key2_default"]) != (p["sub1"], p["sub2"]):
        bad["sub_view_defaults"] = (d["sub_view_key1_default"], d["sub_view_key2_default"])
    if len(d["nodes"]) != nnodes:
        bad["node_count"] = len(d["nodes"])
    else:
        for g, e in zip(d["nodes"], nodes):
            if (g["selector"], g["pass_count"], bytes(g["pass_indices"]), g["system_keys"], g["scene_keys"], g["material_keys"], g["subview_keys"]) != \
                    (e["selector"], len(e["passes"]), e["idx"], e["sys"], e["scene"], e["mat"], e["sub"]) or \
                    [(x["id"], x["vertex_shader"], x["pixel_shader"]) for x in g["passes"]] != e["passes"]:
                bad["node"] = (str(g)[:200], e["selector"])
    if [(a["selector"], a["node"]) for a in d["node_aliases"]] != aliases:
        bad["aliases"] = d["node_aliases"]
    if bad:
        ctx.violation("decode", dict(sub="package_fields", fields=",".join(sorted(bad))[:100]), dict(bad=repr(bad)[:1500]), files=[f])
    # selector resolution: first of nodes-then-aliases carrying the selector
    table = [(n["selector"], i) for i, n in enumerate(nodes)] + list(aliases)
    probes = [s for s, _ in table] + [sels[-1], 0]
    # the same question asked again straight away, hits and misses in every order: a lookup must not remember the previous one
    absent = [x for x in (sels[-1], 0, 0xFFFFFFFF, (table[0][0] ^ 1) if table else 5) if all(x != s for s, _ in table)]
    known = [s for s, _ in table]
    for _ in range(3):
        a = rng.choice(absent) if absent else None
        k = rng.choice(known) if known else None
        for x in rng.choice([(a, a), (k, k), (k, a, a), (a, k, a), (a, a, k, k), (k, a, k)]):
            if x is not None:
                probes.append(x)
    for sel in probes:
        r = ctx.call("shpk.find_node", h, sel)
        ctx.check_mon(r, len(data), files=[f])
        exp = next((i for s, i in table if s == sel), None)
        ctx.case(digest(data, sel), True, ["find_node:" + ("hit" if exp is not None else "miss")])
        if exp is None:
            if r.ok:
                ctx.violation("decode", dict(sub="find_node_unknown_selector"), dict(selector=sel, got=r.value), files=[f])
        elif r.outcome == "none" or (r.ok and r.value["pos"] != exp):
            ctx.violation("decode", dict(sub="find_node"), dict(selector=sel, got=r.value, expected_pos=exp), files=[f])
    # the same lookups from several threads that share the one package object
    if rng.random() < 0.3 or ctx.variant == "miri":
        ctx.shared_between_threads(["shpk.find_node %d %d" % (h, sel) for sel in probes[:40]], "shpk-find-node", reps=20, files=[f])
    ctx.call("drop", h)


def selector_case(ctx, rng):
    lists = [[rng.choice([0, 1, 31, 2 ** 32 - 1, rng.getrandbits(32)]) for _ in range(rng.choice([0, 1, 2, 3, 8]))] for _ in range(4)]
    poly = lambda ks: sum(k * pow(31, i, 2 ** 32) for i, k in enumerate(ks)) % 2 ** 32
    r = ctx.call("shpk.selector", *[",".join(map(str, l)) or "-" for l in lists])
    ctx.case(digest("sel", lists), True, ["selector"], sample=dict(key_lists=lists, selector=r.value))
    if r.ok:
        parts = [poly(l) for l in lists]
        if r.value["parts"] != parts or r.value["all"] != poly(parts) or r.value["from_keys"] != poly(parts):
            ctx.violation("decode", dict(sub="selector"), dict(lists=lists, got=r.value, expected=(parts, poly(parts))))
    r1 = ctx.call("shpk.selector", ",".join(map(str, lists[0])) or "-")
    if r1.ok and r1.value != poly(lists[0]):
        ctx.violation("decode", dict(sub="selector_single"), dict(keys=lists[0], got=r1.value, expected=poly(lists[0])))
