"""C15 - game paths, race codes and repository file names are well-formed and unambiguous.

Monitor: table monitor over completely enumerated finite domains (Python tables written from the
game's conventions) + injectivity invariant on the observed code table + ordering monitor over
permutations, both through sort() and through on-disk discovery."""
import itertools, os, shutil
from ..core import digest
from ..fmt import zipatch as zp
from . import c03

LEVEL = "exploration"
RULE = ("finite domains enumerated through the real functions and compared with independent Python tables: "
        "all 8x16x2 (race,tribe,gender) triples (supported-tribe partition, code table, injectivity per body type); "
        "skeleton / character / equipment paths for every valid triple x 10 slots x equipment ids (quick: ids 0..199 and 9800..9999 "
        "for every triple plus all 0..9999 for one triple per shard; thorough: all 0..9999 for every triple) with "
        "deconstruct(build(x)) == x; all 5 platforms x 10 expansions x 15 categories x 10 chunks x 8 dat ids file names; "
        "every permutation of every subset (quick: size <= 5 complete, sizes 6-7 sampled; thorough: size <= 7 complete) of "
        "{ffxiv, ex1..ex9} through sort() and directories created in permuted order for on-disk discovery; patch side: one patch per platform x expansion "
        "touching every category x chunk x dat id (add / expand / header commands) and both index files through every (file kind, header kind) pair, "
        "the set of files created == the read-side names of the same tuples and each command's bytes land in its own file. "
        "non-trivial = valid triple / permutation of >= 2 members / file name; distinct = the tuple itself")
ASSUMPTIONS = ["race code table 101..1801 and path conventions as used by the retail game client (TexTools/Lumina conventions)"]

RACES = {1: (1, 2), 2: (3, 4), 3: (5, 6), 4: (7, 8), 5: (9, 10), 6: (11, 12), 7: (13, 14), 8: (15, 16)}
SLOT_ABBR = ["met", "glv", "dwn", "sho", "top", "ear", "nek", "wrs", "ril", "rir"]
CATS = [0, 1, 2, 3, 4, 5, 6, 7, 8, 9, 0xA, 0xB, 0xC, 0x12, 0x13]
CHARCAT = [("body", "b", "top"), ("hair", "h", "hir"), ("face", "f", "fac"), ("tail", "t", "til"), ("zear", "z", "zer")]


def code(race, tribe, gender):
    if tribe not in RACES[race]:
        return None
    if race == 1:
        return {1: (101, 201), 2: (301, 401)}[tribe][gender]
    base = {2: 501, 4: 701, 5: 901, 3: 1101, 6: 1301, 7: 1501, 8: 1701}[race]
    return base + 100 * gender


def body_type(race, tribe, gender):
    return (race, tribe if race == 1 else 0, gender)


def plan(tier):
    if tier == "quick":
        return [("debug", 8, dict(full=False)), ("release", 4, dict(full=False))]
    return [("debug", 16, dict(full=True))]


def shard(ctx):
    full = ctx.params["full"]
    if ctx.index == 0:
        race_table(ctx)
        file_names(ctx)
    paths(ctx, full)
    ordering(ctx, full)
    discovery(ctx, 12 if not full else 60)
    patch_side_names(ctx)


def race_table(ctx):
    rec = ctx.call("race.table")
    ctx.check_mon(rec)
    if not rec.ok:
        return
    seen = {}
    for row in rec.value:
        r = row["race"]
        tribes = tuple(sorted(row["tribes"]))
        ctx.case(("tribes", r), True, ["race-tribes"], sample=dict(race=r, tribes=list(tribes)))
        if tribes != RACES[r]:
            ctx.violation("table", dict(sub="supported_tribes", race=r), dict(got=tribes, expected=RACES[r]))
        for e in row["ids"]:
            t, g, got = e["tribe"], e["gender"], e["id"]
            exp = code(r, t, g)
            ctx.case(("code", r, t, g), exp is not None, ["race-code"], sample=dict(race=r, tribe=t, gender=g, code=got) if exp else None)
            # the property's own wording first: valid -> defined, distinct body types never share a code
            valid = t in RACES[r]
            if valid and got is None:
                ctx.violation("table", dict(sub="race_code_missing", race=r, tribe=t), dict(race=r, tribe=t, gender=g))
            elif valid:
                bt = body_type(r, t, g)
                if got in seen and seen[got] != bt:
                    ctx.violation("table", dict(sub="race_code_shared", race=r), dict(code=got, body_types=[seen[got], bt]))
                seen.setdefault(got, bt)
                if got != exp:
                    ctx.violation("table", dict(sub="race_code_value", race=r), dict(race=r, tribe=t, gender=g, got=got, expected=exp))
            elif got is not None and not valid:
                # defined for a tribe that does not belong to the race
                ctx.violation("table", dict(sub="race_code_for_foreign_tribe", race=r, tribe=t), dict(race=r, tribe=t, gender=g, got=got))


def paths(ctx, full):
    triples = [(r, t, g) for r in RACES for t in range(1, 17) for g in (0, 1)]
    rec0 = ctx.call("race.table")
    lib_valid = set()
    if rec0.ok:
        for row in rec0.value:
            for e in row["ids"]:
                if e["id"] is not None:
                    lib_valid.add((row["race"], e["tribe"], e["gender"]))
    mine = [x for i, x in enumerate(triples) if i % ctx.nshards == ctx.index]
    k = 0
    for (r, t, g) in mine:
        c = code(r, t, g)
        if c is None:
            continue
        if (r, t, g) not in lib_valid:
            # build_* would unwrap None: already reported by race_table as race_code_missing
            ctx.note("valid triple without library race code, paths not built")
            continue
        ranges = [(0, 10000)] if (full or k == 0) else [(0, 200), (9800, 10000)]
        k += 1
        for lo, hi in ranges:
            out = ctx.path("paths.out")
            rec = ctx.call("paths.table", out, r, t, g, lo, hi)
            if not ctx.check_mon(rec) or not rec.ok:
                continue
            lines = ctx.read("paths.out").decode().split("\n")
            seen = set()
            for l in lines:
                if not l:
                    continue
                if l[0] == "S":
                    exp = "chara/human/c%04d/skeleton/base/b0001/skl_c%04db0001.sklb" % (c, c)
                    ctx.case(("skel", r, t, g), True, ["skeleton-path"], sample=dict(triple=[r, t, g], skeleton=l[2:]))
                    if l[2:] != exp:
                        ctx.violation("path", dict(sub="skeleton_path", race=r), dict(got=l[2:], expected=exp))
                elif l[0] == "C":
                    _, ci, ver, p = l.split(" ", 3)
                    cp, pre, ab = CHARCAT[int(ci)]
                    ver = int(ver)
                    exp = "chara/human/c%04d/obj/%s/%s%04d/model/c%04d%s%04d_%s.mdl" % (c, cp, pre, ver, c, pre, ver, ab)
                    ctx.case(("chara", r, t, g, ci, ver), True, ["character-path"])
                    if p != exp:
                        ctx.violation("path", dict(sub="character_path", race=r), dict(got=p, expected=exp))
                elif l[0] == "E":
                    head, dec = l.split(" | ")
                    _, si, mid, p = head.split(" ", 3)
                    si = int(si); mid = int(mid)
                    exp = "chara/equipment/e%04d/model/c%04de%04d_%s.mdl" % (mid, c, mid, SLOT_ABBR[si])
                    ctx.stats.evaluations += 1
                    ctx.stats.classes["equipment-path"] += 1
                    if mid % 997 == 0:
                        ctx.stats.nontrivial.add(digest(("equip", r, t, g, si, mid)))
                    if p != exp:
                        ctx.violation("path", dict(sub="equipment_path", race=r, slot=si), dict(got=p, expected=exp))
                    if p in seen:
                        ctx.violation("path", dict(sub="equipment_path_not_unique"), dict(path=p))
                    seen.add(p)
                    if dec != "%d %d" % (mid, si):
                        ctx.violation("path", dict(sub="deconstruct_roundtrip", slot=si), dict(path=p, got=dec, expected="%d %d" % (mid, si)))
            ctx.stats.nontrivial.add(digest(("triple", r, t, g, lo, hi)))


def file_names(ctx):
    out = ctx.path("names.out")
    rec = ctx.call("repo.names", out)
    if not ctx.check_mon(rec) or not rec.ok:
        return
    n = 0
    names = {}
    for l in ctx.read("names.out").decode().split("\n"):
        if not l:
            continue
        plat, ex, cat, ch, dat, idx, idx2, dn = l.split(" ")
        ex, cat, ch, dat = int(ex), int(cat), int(ch), int(dat)
        e_idx = "%02x%02d%02d.%s.index" % (cat, ex, ch, plat)
        e_dat = "%02x%02d%02d.%s.dat%d" % (cat, ex, ch, plat, dat)
        n += 1
        ctx.stats.evaluations += 1
        if dat == 0:
            ctx.stats.nontrivial.add(digest((plat, ex, cat, ch)))
        ctx.stats.classes["filename:%s" % plat] += 1
        if idx != e_idx or idx2 != e_idx + "2" or dn != e_dat:
            ctx.violation("names", dict(sub="file_name", platform=plat), dict(got=[idx, idx2, dn], expected=[e_idx, e_idx + "2", e_dat]))
        # unambiguous: distinct inputs give distinct names
        key = (plat, ex, cat, ch)
        if names.setdefault(idx, key) != key:
            ctx.violation("names", dict(sub="file_name_collision"), dict(name=idx, a=names[idx], b=key))
    if n != 5 * 10 * 15 * 10 * 8:
        ctx.violation("names", dict(sub="file_name_domain"), dict(lines=n))
    ctx.stats.samples.append(dict(file_names_checked=n, example="0a0000.win32.index"))


ALL = ["ffxiv"] + ["ex%d" % i for i in range(1, 10)]


def expected_order(names):
    return sorted(names, key=lambda n: 0 if n == "ffxiv" else int(n[2:]))


def ordering(ctx, full):
    rng = ctx.rng
    lines = []
    idx = 0
    for k in range(0, 8):
        for sub in itertools.combinations(ALL, k):
            idx += 1
            if idx % ctx.nshards != ctx.index:
                continue
            if full or k <= 5:
                for perm in itertools.permutations(sub):
                    lines.append(perm)
            else:
                sub = list(sub)
                for _ in range(40):
                    rng.shuffle(sub)
                    lines.append(tuple(sub))
                lines.append(tuple(reversed(expected_order(sub))))
    inp = ctx.write("sort.in", ("\n".join(" ".join(p) for p in lines) + "\n").encode())
    out = ctx.path("sort.out")
    rec = ctx.call("repo.sort.batch", inp, out, input_bytes=os.path.getsize(inp))
    if not ctx.check_mon(rec, os.path.getsize(inp)) or not rec.ok:
        return
    got = ctx.read("sort.out").decode().split("\n")
    for perm, g in zip(lines, got):
        exp = expected_order(perm)
        ctx.stats.evaluations += 1
        ctx.stats.classes["sort:size%d" % len(perm)] += 1
        if len(perm) >= 2:
            ctx.stats.nontrivial.add(digest(perm))
        if g.split() != exp:
            ctx.violation("order", dict(sub="sort_order", size=len(perm)), dict(input=perm, got=g, expected=exp))
    ctx.stats.samples.append(dict(permutation=list(lines[-1]), sorted=got[len(lines) - 1]))


def discovery(ctx, n):
    rng = ctx.rng
    for i in range(n):
        k = rng.randint(0, 7)
        sub = rng.sample(ALL[1:], k)
        root = ctx.path("disc%d" % i)
        os.makedirs(os.path.join(root, "sqpack"))
        order = sub + ["ffxiv"]
        rng.shuffle(order)
        for name in order:
            os.makedirs(os.path.join(root, "sqpack", name))
            if rng.random() < 0.5:
                with open(os.path.join(root, "sqpack", name, name + ".ver"), "w") as f:
                    f.write("2012.01.01.0000.0000")
        plat = rng.choice(["win32", "ps3", "ps4", "ps5", "lys"])
        rec = ctx.call("gd.open", plat, root)
        ctx.check_mon(rec, residual=False)
        if rec.ok:
            got = [r["name"] for r in rec.value["repos"]]
            exp = expected_order(sub + ["ffxiv"])
            ctx.case(("disc", tuple(order)), len(order) >= 2, ["discovery:size%d" % len(order)], sample=dict(created=order, discovered=got))
            if got != exp:
                ctx.violation("order", dict(sub="discovery_order"), dict(created=order, got=got, expected=exp), files=[root])
            for r in rec.value["repos"]:
                if r["platform"] != plat or (r["name"] != "ffxiv" and r["exp"] != int(r["name"][2:])):
                    ctx.violation("order", dict(sub="discovery_fields"), dict(repo=r, platform=plat))
            ctx.call("drop", rec.value["handle"])
        elif rec.outcome == "none":
            ctx.violation("order", dict(sub="discovery_failed"), dict(created=order))
        shutil.rmtree(root, ignore_errors=True)


def patch_side_names(ctx):
    """the files ZiPatch::apply creates for (platform, expansion, category, chunk, dat id) carry exactly the names the read side
    computes for the same tuple: one patch per (platform, expansion) touching every category x chunk x dat id and both index files
    through every (file kind, header kind) combination of the header command"""
    out = ctx.path("names2.out")
    rec = ctx.call("repo.names", out)
    if not rec.ok:
        return
    reader = {}
    for l in ctx.read("names2.out").decode().split("\n"):
        if l:
            plat, ex, cat, ch, dat, idx, idx2, dn = l.split(" ")
            reader[(plat, int(ex), int(cat), int(ch), int(dat))] = (idx, idx2, dn)
    rng = ctx.rng
    pairs = [(pl, ex) for pl in range(5) for ex in range(10)]
    for k, (pl, ex) in enumerate(pairs):
        if k % ctx.nshards != ctx.index:
            continue
        pn = zp.PLATFORM_NAMES[pl]
        ops = [dict(op="FHDR", version=3), dict(op="T", platform=pl, region=rng.choice([-1, 1]))]      # both regions the format knows
        # win32 is the platform in force before any target-info chunk: some win32 patches carry none, and run right after an apply
        # for another platform has failed in the same process (nothing of that one may carry over)
        no_t = pl == 0 and rng.random() < 0.6
        if no_t:
            ops = ops[:1]
        expected = set()
        folder = "ffxiv" if ex == 0 else "ex%d" % ex
        # a second target-info chunk in the middle: the first categories are addressed under the first platform, then ALL categories
        # (the first ones again, too) under another one - every name must carry the platform in force when its command ran
        pl2 = rng.choice([x for x in range(5) if x != pl])
        phases = [(pl, CATS[:3]), (pl2, CATS)] if rng.random() < 0.5 else [(pl, CATS)]
        for pi, (plx, cats) in enumerate(phases):
            pnx = zp.PLATFORM_NAMES[plx]
            if pi:
                ops.append(dict(op="T", platform=plx, region=rng.choice([-1, 1])))
            for cat in cats:
                for ch in range(10):
                    sub = (ex << 8) | ch
                    for fid in range(8):
                        how = (fid + cat + ch) % 3
                        if how == 0:
                            ops.append(dict(op="A", main=cat, sub=sub, fid=fid, off=rng.randrange(4), data=rng.randbytes(128), dele=0))
                        elif how == 1:
                            ops.append(dict(op="E", main=cat, sub=sub, fid=fid, off=0, n=2))
                        else:
                            ops.append(dict(op="H", fk=b"D", hk=rng.choice([b"V", b"D", b"I"]), main=cat, sub=sub, fid=fid, data=rng.randbytes(1024)))
                        expected.add("sqpack/%s/%s" % (folder, reader[(pnx, ex, cat, ch, fid)][2]))
                    for hk in (b"V", b"I", b"D"):
                        ops.append(dict(op="H", fk=b"I", hk=hk, main=cat, sub=sub, fid=0, data=rng.randbytes(1024)))
                    ops.append(dict(op="H", fk=b"I", hk=rng.choice([b"V", b"I", b"D"]), main=cat, sub=sub, fid=2, data=rng.randbytes(1024)))
                    expected.add("sqpack/%s/%s" % (folder, reader[(pnx, ex, cat, ch, 0)][0]))
                    expected.add("sqpack/%s/%s" % (folder, reader[(pnx, ex, cat, ch, 0)][1]))
        ops.append(dict(op="EOF"))
        wire = zp.serialise(ops)
        pf = ctx.write("names.patch", wire)
        root = ctx.path("names-target")
        shutil.rmtree(root, ignore_errors=True)
        os.makedirs(root)
        ctx.case(("patch-names", pn, ex), True, ["patch-side-names:%s" % pn, "patch-side-names:target-info-chunks:%d" % len(phases)], sample=dict(platform=pn, expansion=ex, commands=len(ops), files_expected=len(expected)))
        if no_t:
            c03.failed_apply_first(ctx, rng)
            ctx.stats.classes["patch-side-names:no-target-info-chunk-after-failed-apply"] += 1
        r = ctx.call("zp.apply", root, pf, input_bytes=len(wire))
        if not ctx.check_mon(r, len(wire), files=[pf]):
            shutil.rmtree(root, ignore_errors=True)
            continue
        if not r.ok:
            ctx.violation("names", dict(sub="patch_apply_failed", platform=pn), dict(outcome=r.outcome, expansion=ex), files=[pf])
            shutil.rmtree(root, ignore_errors=True)
            continue
        files, dirs = zp.snapshot(root)
        got = set(files)
        ctx.stats.evaluations += len(expected)
        ctx.stats.classes["patch-side-file"] += len(got)
        if got != expected:
            ctx.violation("names", dict(sub="patch_side_names_differ_from_read_side", platform=pn),
                          dict(expansion=ex, only_written=sorted(got - expected)[:6], only_read_side=sorted(expected - got)[:6]), files=[pf])
        else:
            # the content lands in the file of its own tuple (reference semantics of the commands)
            model = zp.Model({}, [])
            model.apply(ops)
            diffs = zp.compare(model, files, dirs)
            if diffs:
                ctx.violation("names", dict(sub="patch_side_content_in_wrong_file", platform=pn, diff="+".join(sorted({d[0] for d in diffs}))), dict(expansion=ex, diffs=diffs[:5]), files=[pf])
        shutil.rmtree(root, ignore_errors=True)
