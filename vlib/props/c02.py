"""C02 - extraction returns exactly the bytes that were packed.

Monitor: equality monitor (library output vs. the bytes the independent Python packer was given)
+ residual-heap monitor + proportionality monitor; ASan/LSan replay of the same workload."""
import os, shutil, struct
from ..core import digest
from ..fmt import sqpack as sq

LEVEL = "exploration"
RULE = ("dat files built by an independent packer: standard / texture / model entries at random 128-aligned offsets in dat0..dat7 with 0xCD junk around, "
        "content lengths 0..1 MiB (quick <= 256 KiB) incl. edges 0,1,127..129,15999..16001,31999..32001, content kinds random/runs/text/zero, block sizes 1..16000, "
        "each block independently raw (32000 marker) or raw-deflate by Python zlib (stored, Z_FIXED, Z_HUFFMAN_ONLY, Z_RLE, dynamic); textures with 1..5 mips and "
        "per-mip block chains, blocks / mips / sections stored in another order than their tables list them and with unused room between them (offsets are what counts), models with stack/runtime/vertex/index sections for 1..3 LODs and arbitrary per-section block counts; read through "
        "SqPackData::read_from_offset and (one in four) through GameData::extract on a generated index; plus entries of all three kinds stored at offsets from 4 GiB - 128 up to 2^35 in "
        "a sparse dat file, read both ways. non-trivial = >= 1 deflated block or >= 2 blocks or "
        "texture/model kind; distinct = digest of (kind, content, split, strategies)")
ASSUMPTIONS = ["Python zlib produces valid raw-deflate streams of every block type", "entry layouts as documented for SqPack (validated by probes: the library accepts them)"]


def plan(tier):
    if tier == "quick":
        return [("debug", 12, dict(n=40, maxlen=256 << 10, lsan=False)), ("release", 4, dict(n=25, maxlen=256 << 10, lsan=False)), ("asan", 4, dict(n=14, maxlen=128 << 10, lsan=True)),
                ("memcheck", 4, dict(n=5, maxlen=24000, lsan=False, far=0, small=True))]
    return [("debug", 16, dict(n=380, maxlen=1 << 20, lsan=False)), ("release", 8, dict(n=200, maxlen=1 << 20, lsan=False)),
            ("asan", 8, dict(n=120, maxlen=512 << 10, lsan=True)), ("miri", 16, dict(n=2, maxlen=6000, lsan=False, far=0, small=True)),
            ("memcheck", 8, dict(n=40, maxlen=128 << 10, lsan=False, far=0, small=True))]


EDGES = [0, 1, 2, 127, 128, 129, 15999, 16000, 16001, 31999, 32000, 32001]


def content(rng, n):
    k = rng.random()
    if k < 0.35:
        return rng.randbytes(n), "random"
    if k < 0.55:
        out = bytearray()
        while len(out) < n:
            out += bytes([rng.randrange(256)]) * rng.randint(1, 300)
        return bytes(out[:n]), "runs"
    if k < 0.8:
        words = [b"chara", b"/human/", b"c0101", b"material", b".mtrl", b" ", b"\n", b"0123456789", b"the quick brown fox"]
        out = bytearray()
        while len(out) < n:
            out += rng.choice(words)
        return bytes(out[:n]), "text"
    return bytes(n), "zero"


def stored_lookalike(rng):
    """content whose hand-made fixed-Huffman stream is exactly 5 bytes longer than the content - the length a stored block would have
    (3 header bits + 8 or 9 bits per literal + 7 bits end-of-block: 23..30 of the bytes are >= 144)"""
    n = rng.choice([32, 60, 1000, 15999, rng.randint(31, 4000)])
    high = rng.randint(23, 30)
    data = bytearray(rng.randrange(144) for _ in range(n))
    for i in rng.sample(range(n), high):
        data[i] = rng.randrange(144, 256)
    data = bytes(data)
    assert len(sq.deflate_fixed_literals(data)) == n + 5
    return data


def pick_len(rng, maxlen):
    k = rng.random()
    if k < 0.25:
        return rng.choice([e for e in EDGES if e <= max(maxlen, 129)])
    if k < 0.6:
        return rng.randint(0, min(40000, maxlen))
    return rng.randint(0, maxlen)


def pick_sizes(rng):
    k = rng.random()
    if k < 0.3:
        return [16000]
    if k < 0.5:
        return [rng.randint(1, 16000)]
    if k < 0.6:
        return [rng.randint(1, 64)] if rng.random() < 0.5 else [1, 16000, 7]
    return [rng.randint(1, 16000) for _ in range(rng.randint(2, 6))]


def strat_fn(rng):
    mode = rng.choice(["mixed", "mixed", "raw", "dynamic", "stored", "fixed", "huffman", "rle", "fast"])
    names = list(sq.STRATEGIES) + ["fixed-literals"]      # + a stream written out by hand (zlib never emits a literal-only fixed block when a stored one is not longer)
    return (lambda: rng.choice(names)) if mode == "mixed" else (lambda: mode)


def bounded_split(rng, data, sizes, maxblocks=400):
    if not data:
        return []
    # keep the number of blocks bounded so that tiny block sizes do not explode large contents
    if len(data) / max(1, min(sizes)) > maxblocks:
        sizes = [max(s, len(data) // maxblocks + 1) for s in sizes]
        sizes = [min(s, 16000) for s in sizes]
    return sq.split(data, sizes)


def shard(ctx):
    rng, P = ctx.rng, ctx.params
    for it in range(P["n"]):
        group(ctx, rng, P)
    for it in range(P.get("far", 1)):
        far_offset_group(ctx, rng, P)


def failing_extraction_first(ctx, rng):
    """an extraction that fails (deflate stream damaged, or cut off by the end of the file) in the same process right before the
    extraction under test: nothing of it may carry over (a decompressor kept between calls, a buffer, a position)"""
    db = sq.DatBuilder()
    content_ = b"abcdefgh" * 300 + rng.randbytes(300)
    entry, _ = sq.standard_entry([content_[:1500], content_[1500:]], ["dynamic", rng.choice(["dynamic", "fixed"])])
    off = db.add(entry)
    data = bytearray(db.bytes())
    hsize = struct.unpack_from("<I", data, off)[0]
    if rng.random() < 0.7:
        p = off + hsize + 16 + rng.randrange(8, 200)
        for k in range(rng.choice([2, 8, 32])):
            data[p + k] ^= 0xA5
    else:
        data = data[:off + hsize + 16 + rng.randrange(20, 400)]
    f = ctx.write("failing.dat", bytes(data))
    rec = ctx.call("dat.read", f, off, "-", input_bytes=len(data))
    ctx.stats.monitor["failing_extraction_first:" + rec.outcome.split(":")[0]] += 1
    ctx.stats.classes["history:after-a-failed-extraction"] += 1


def far_offset_group(ctx, rng, P):
    """entries stored beyond 4 GiB in a (sparse) dat file: an index entry addresses 128-aligned offsets up to 2^35, and every
    offset inside an entry is relative to the entry, so the arithmetic must be carried out in 64 bits"""
    plat = rng.choice(list(sq.PLATFORMS))
    base = rng.choice([(1 << 32) - 128, 1 << 32, (1 << 32) + 128 * rng.randrange(1, 1 << 20), 1 << 33, (1 << 34) + 128 * rng.randrange(1 << 20), (1 << 35) - (1 << 22)])
    blob = bytearray()
    planted = []
    sf = strat_fn(rng)
    for kind in rng.sample(["standard", "texture", "model"], 3):
        if kind == "standard":
            data, ck = content(rng, rng.choice([1, 200, 40000]))
            chunks = bounded_split(rng, data, pick_sizes(rng))
            entry, used = sq.standard_entry(chunks, [sf() for _ in chunks])
            exp = dict(kind=kind, data=data)
            meta = dict(kind=kind, content=ck, length=len(data), blocks=len(chunks))
        elif kind == "texture":
            header = rng.randbytes(80)
            mips = [bounded_split(rng, content(rng, rng.choice([64, 5000, 33000]))[0], pick_sizes(rng), 60) for _ in range(rng.randint(1, 4))]
            entry, expected, used = sq.texture_entry(header, mips, sf)
            exp = dict(kind=kind, data=expected)
            meta = dict(kind=kind, content="tex", length=len(expected), blocks=sum(len(m) for m in mips), mips=len(mips))
        else:
            nl = rng.randint(1, 3)
            stack, runtime = rng.randbytes(136), rng.randbytes(rng.choice([1, 500]))
            lods = [(rng.randbytes(rng.choice([16, 3000])), rng.randbytes(rng.choice([16, 96]))) if i < nl else (b"", b"") for i in range(3)]
            sizes = pick_sizes(rng)
            hdrvals = dict(version=0x1000005, vdecl=rng.randrange(1, 40), materials=rng.randrange(0, 9), lod_count=nl, streaming=False, edge=False)
            entry, sections, used = sq.model_entry(hdrvals["version"], stack, runtime, lods, hdrvals["vdecl"], hdrvals["materials"], nl, False, False,
                                                   lambda d: bounded_split(rng, d, sizes, 60), sf)
            exp = dict(kind=kind, sections=sections, hdr=hdrvals)
            meta = dict(kind=kind, content="mdl", length=sum(len(x) for x in sections.values()), blocks=len(used), lods=nl)
        while len(blob) % 128:
            blob.append(0xCD)
        blob += b"\xCD" * (128 * rng.choice([0, 1, 3]))
        off = base + len(blob)
        blob += entry
        meta["used"] = sorted(set(used))
        planted.append((off, exp, meta, digest(kind, entry, off)))
    while len(blob) % 128:
        blob.append(0xCD)
    if base + len(blob) > (1 << 35):
        return
    root = ctx.path("far")
    rd = os.path.join(root, "sqpack", "ffxiv")
    os.makedirs(rd, exist_ok=True)
    cat = rng.choice(list(sq.CATEGORIES)); cid = sq.CATEGORIES[cat]
    datid = rng.randrange(8)
    datp = os.path.join(rd, sq.dat_filename(cid, 0, 0, plat, datid))
    try:
        with open(datp, "wb") as f:
            f.write(sq.DatBuilder(sq.PLATFORMS[plat]).bytes(tail_junk=0))
            f.seek(base)          # a hole: the file stays sparse on disk
            f.write(blob)
        if os.stat(datp).st_blocks * 512 > (64 << 20):
            raise OSError("file system does not keep the hole sparse")
    except OSError as e:
        ctx.inconclusive("far-offset dat file could not be created: %s" % e)
        shutil.rmtree(root, ignore_errors=True)
        return
    paths = ["%s/far/file_%d.bin" % (cat, k) for k in range(len(planted))]
    ikind = rng.choice([1, 2])
    ents = [((sq.hash1(p) if ikind == 1 else sq.hash2(p)), datid, o, False) for p, (o, _, _, _) in zip(paths, planted)]
    with open(os.path.join(rd, sq.index_filename(cid, 0, 0, plat, ikind)), "wb") as f:
        f.write(sq.index_file(ikind, ents, sq.PLATFORMS[plat], ndats=datid + 1))
    gd = None
    r = ctx.call("gd.open", plat, root)
    if r.ok:
        gd = r.value["handle"]
    out = ctx.path("extract.out")
    for path, (off, exp, meta, key) in zip(paths, planted):
        for via in ("read_from_offset", "extract"):
            if via == "extract" and gd is None:
                continue
            ctx.case(digest(key, via), True, ["kind:" + meta["kind"], "offset:>=4GiB" if off >= (1 << 32) else "offset:straddles-4GiB", "via:" + via, "dat:%d" % datid],
                     sample=dict(meta, offset=off, dat=datid, via=via))
            if os.path.exists(out):
                os.unlink(out)
            rec = ctx.call("gd.extract", gd, path, out, input_bytes=len(blob)) if via == "extract" else ctx.call("dat.read", datp, off, out, input_bytes=len(blob))
            ctx.check_mon(rec, len(blob), residual=(via != "extract"), files=[])
            if rec.outcome == "none":
                ctx.violation("extract", dict(sub="returned_none", kind_of=meta["kind"], where="offset>=4GiB"), dict(meta=meta, offset=off, via=via, note="sparse dat file, rebuild with the replay seed"))
                continue
            if rec.ok:
                judge(ctx, ctx.read("extract.out"), exp, dict(meta, via=via), off, None)
    if gd is not None:
        ctx.call("drop", gd)
    shutil.rmtree(root, ignore_errors=True)


def group(ctx, rng, P):
    """one dat file set with several entries of all kinds, then read each back"""
    plat = rng.choice(list(sq.PLATFORMS))
    dats = {}
    planted = []
    nent = rng.randint(2, 6)
    for e in range(nent):
        kind = rng.choice(["standard", "standard", "texture", "model"])
        datid = rng.randrange(8)
        db = dats.setdefault(datid, sq.DatBuilder(sq.PLATFORMS[plat]))
        sf = strat_fn(rng)
        if kind == "standard":
            data, ck = content(rng, pick_len(rng, P["maxlen"]))
            chunks = bounded_split(rng, data, pick_sizes(rng))
            look = stored_lookalike(rng) if rng.random() < 0.12 else None
            if look is not None:
                data, ck, chunks = look, "stored-lookalike", [look]
                sf = lambda: "fixed-literals"
            if not chunks and rng.random() < 0.5:
                chunks = [b""]
            strategies = [sf() for _ in chunks]
            # the block table carries each block's offset: the blocks need not be stored in content order
            order = None
            if len(chunks) >= 2 and rng.random() < 0.3:
                order = list(range(len(chunks)))
                rng.shuffle(order) if rng.random() < 0.7 else order.reverse()
            xh = rng.choice([0, 0, 0, 1, 2])
            # the first stored block need not sit at the start of the block area either: a stale block (well-formed, other content)
            # or filler may lie in front of it - also for an entry of a single block
            lead = None
            if chunks and rng.random() < 0.25:
                lead = sq.pack_block(rng.randbytes(rng.choice([1, 100, 2000])), rng.choice(["raw", "dynamic"]))[0] if rng.random() < 0.7 else b"\xCD" * 128 * rng.choice([1, 3])
            entry, used = sq.standard_entry(chunks, strategies, gap=rng.choice([0, 0, 1]), order=order, extra_header=xh, lead=lead)
            exp = dict(kind=kind, data=data)
            meta = dict(kind=kind, content=ck, length=len(data), blocks=len(chunks), storage="permuted" if order else ("stale-block-in-front" if lead else "in-order"))
        elif kind == "texture":
            hl = rng.choice([80, 80, 80, 0, 16, 200])
            header = rng.randbytes(hl)
            mips = []
            nm = rng.randint(1, 5) if rng.random() < 0.9 else rng.choice([13, 14, 15, 20])
            for m in range(nm):
                d, ck = content(rng, max(1, pick_len(rng, P["maxlen"] // 4))) if nm <= 5 else (rng.randbytes(rng.choice([4, 16, 64, 200])), "tex")
                mips.append(bounded_split(rng, d, pick_sizes(rng), 120))
            # every mip carries its own offset: mips after the first may be stored in any order, with unused room between them
            mip_order, mip_gap = None, 0
            if len(mips) >= 2 and rng.random() < 0.35:
                mip_order = list(range(1, len(mips)))
                rng.shuffle(mip_order)
                mip_gap = rng.choice([0, 1, 3])
                if mip_order == list(range(1, len(mips))) and mip_gap == 0:
                    mip_gap = 1
            xh = rng.choice([0, 0, 0, 1, 2])
            entry, expected, used = sq.texture_entry(header, mips, sf, mip_order=mip_order, mip_gap=mip_gap, extra_header=xh)
            exp = dict(kind=kind, data=expected)
            meta = dict(kind=kind, content="tex", length=len(expected), blocks=sum(len(m) for m in mips), mips=len(mips), storage="permuted" if mip_order else "in-order")
        else:
            nl = rng.randint(1, 3)
            stack, _ = content(rng, rng.choice([1, 136, 272, rng.randint(1, 20000)]))
            runtime, _ = content(rng, rng.choice([1, 500, rng.randint(1, 40000)]))
            lods = []
            for i in range(3):
                if i < nl:
                    v, _ = content(rng, rng.choice([16, 1000, rng.randint(1, P["maxlen"] // 4)]))
                    ix, _ = content(rng, rng.choice([16, 96, rng.randint(1, P["maxlen"] // 8)]))
                    k = rng.random()
                    if k < 0.1:
                        ix = b""
                    elif k < 0.25:
                        v = b""  # a LOD that only carries index data
                    lods.append((v, ix))
                else:
                    lods.append((b"", b""))
            sizes = pick_sizes(rng)
            version = rng.choice([0x1000005, 0x1000006, rng.getrandbits(32)])
            # the LOD-count byte is a header value of its own: it may understate (or overstate) the LOD slots that carry sections
            nlb = nl if rng.random() < 0.7 else rng.choice([0, 1, 2, 3, 7, 255])
            hdrvals = dict(version=version, vdecl=rng.randrange(1, 40), materials=rng.randrange(0, 9), lod_count=nlb, streaming=rng.random() < 0.5, edge=False)
            # every section carries its own offset: the block runs may be laid out in any order, with unused room between them
            storage, sec_gap = None, 0
            if rng.random() < 0.3:
                storage = ["stack", "runtime"] + ["%s%d" % (a, i) for i in range(3) for a in "vi"]
                rng.shuffle(storage)
                sec_gap = rng.choice([0, 1, 2])
            entry, sections, used = sq.model_entry(version, stack, runtime, lods, hdrvals["vdecl"], hdrvals["materials"], nlb, hdrvals["streaming"], False,
                                                   lambda d: bounded_split(rng, d, sizes, 150), sf, storage=storage, sec_gap=sec_gap, extra_header=rng.choice([0, 0, 0, 1, 2]))
            exp = dict(kind=kind, sections=sections, hdr=hdrvals)
            meta = dict(kind=kind, content="mdl", length=sum(len(s) for s in sections.values()), blocks=len(used), lods=nl, storage="permuted" if storage else "in-order")
        off = db.add(entry, gap_blocks=rng.choice([0, 0, 1, 5]))
        meta["used"] = sorted(set(used))
        planted.append((datid, off, exp, meta, digest(kind, entry)))
    # write the files (as a tiny installation so that GameData::extract can be used too)
    root = ctx.path("inst")
    rd = os.path.join(root, "sqpack", "ffxiv")
    os.makedirs(rd, exist_ok=True)
    cat = rng.choice(list(sq.CATEGORIES))
    cid = sq.CATEGORIES[cat]
    chunk = rng.randrange(10)
    files = {}
    for datid, db in dats.items():
        p = os.path.join(rd, sq.dat_filename(cid, 0, chunk, plat, datid))
        with open(p, "wb") as f:
            f.write(db.bytes(tail_junk=rng.choice([0, 128, 4096])))
        files[datid] = p
    paths = ["%s/v%d/file_%d.bin" % (cat, k % 3, k) for k in range(len(planted))]
    kind = rng.choice([1, 2])
    if kind == 1:
        ents = [(sq.hash1(p), d, o, False) for p, (d, o, _, _, _) in zip(paths, planted)]
    else:
        ents = [(sq.hash2(p), d, o, False) for p, (d, o, _, _, _) in zip(paths, planted)]

    with open(os.path.join(rd, sq.index_filename(cid, 0, chunk, plat, kind)), "wb") as f:
        f.write(sq.index_file(kind, ents, sq.PLATFORMS[plat], ndats=max(dats) + 1))
    gd = None
    if rng.random() < 0.25:
        r = ctx.call("gd.open", plat, root)
        if r.ok:
            gd = r.value["handle"]
    out = ctx.path("extract.out")
    for path, (datid, off, exp, meta, key) in zip(paths, planted):
        fsz = os.path.getsize(files[datid])
        nontrivial = meta["kind"] != "standard" or meta["blocks"] >= 2 or any(u != "raw" for u in meta["used"])
        classes = ["kind:" + meta["kind"], "blocks:%s" % bucket(meta["blocks"]), "dat:%d" % datid] + ["strategy:" + u for u in meta["used"]]
        if meta["kind"] == "standard":
            classes.append("content:" + meta["content"])
            classes.append("len:%s" % ("edge%d" % meta["length"] if meta["length"] in EDGES else lbucket(meta["length"])))
        if "lods" in meta:
            classes.append("lods:%d" % meta["lods"])
        classes.append("storage:%s:%s" % (meta["kind"], meta.get("storage", "in-order")))
        via = "extract" if gd is not None else "read_from_offset"
        classes.append("via:" + via)
        ctx.case(key, nontrivial, classes, sample=dict(meta, offset=off, dat=datid, via=via))
        if os.path.exists(out):
            os.unlink(out)
        if rng.random() < 0.12 and not ctx.params.get("lsan"):
            failing_extraction_first(ctx, rng)
        if gd is not None:
            rec = ctx.call("gd.extract", gd, path, out, input_bytes=fsz)
            residual = False  # index cache of the handle legitimately grows on the first query
        else:
            rec = ctx.call("dat.read", files[datid], off, out, input_bytes=fsz)
            residual = True
        ctx.check_mon(rec, fsz, residual=residual, files=[files[datid]])
        if ctx.params.get("lsan"):
            lr = ctx.call("lsan.check")
            if lr.ok and lr.value not in (0, None):
                ctx.violation("sanitizer", dict(sub="leak_after_extract", kind_of=meta["kind"]), dict(meta=meta, stderr=ctx.w.stderr_tail()[-2500:]), files=[files[datid]])
        if rec.outcome == "none":
            ctx.violation("extract", dict(sub="returned_none", kind_of=meta["kind"]), dict(meta=meta, offset=off), files=[files[datid]])
            continue
        if not rec.ok:
            continue
        got = ctx.read("extract.out")
        judge(ctx, got, exp, meta, off, files[datid])
    if gd is not None:
        ctx.call("drop", gd)
    for p in files.values():
        os.unlink(p)
    for f in os.listdir(rd):
        os.unlink(os.path.join(rd, f))


def judge(ctx, got, exp, meta, off, datfile):
    if exp["kind"] in ("standard", "texture"):
        if got != exp["data"]:
            fd = next((i for i in range(min(len(got), len(exp["data"]))) if got[i] != exp["data"][i]), min(len(got), len(exp["data"])))
            ctx.violation("extract", dict(sub="content_mismatch", kind_of=exp["kind"]), dict(meta=meta, got_len=len(got), expected_len=len(exp["data"]), first_diff=fd, offset=off), files=[datfile] if datfile else [])
        return
    sec = exp["sections"]
    if len(got) < 0x44:
        ctx.violation("extract", dict(sub="model_too_short"), dict(meta=meta, got_len=len(got)), files=[datfile] if datfile else [])
        return
    h = sq.parse_model_header(got)
    bad = {}
    hv = exp["hdr"]
    for k, v in (("version", hv["version"]), ("vdecl", hv["vdecl"]), ("materials", hv["materials"]), ("lod_count", hv["lod_count"]),
                 ("streaming", 1 if hv["streaming"] else 0), ("edge", 0), ("stack_size", len(sec["stack"])), ("runtime_size", len(sec["runtime"]))):
        if h[k] != v:
            bad[k] = (h[k], v)
    if got[0x44:0x44 + len(sec["stack"])] != sec["stack"]:
        bad["stack_bytes"] = True
    p = 0x44 + len(sec["stack"])
    if got[p:p + len(sec["runtime"])] != sec["runtime"]:
        bad["runtime_bytes"] = True
    for i in range(3):
        for nm, offs, sizes in (("v", h["vertex_offsets"], h["vertex_sizes"]), ("i", h["index_offsets"], h["index_sizes"])):
            s = sec["%s%d" % (nm, i)]
            if sizes[i] != len(s):
                bad["%s%d_size" % (nm, i)] = (sizes[i], len(s))
            elif s and got[offs[i]:offs[i] + sizes[i]] != s:
                bad["%s%d_bytes" % (nm, i)] = (offs[i], sizes[i])
    total = 0x44 + sum(len(s) for s in sec.values())
    if len(got) != total:
        bad["total_len"] = (len(got), total)
    # sections must not overlap and must lie in the buffer
    spans = sorted((h["vertex_offsets"][i], h["vertex_sizes"][i]) for i in range(3) if h["vertex_sizes"][i]) + sorted((h["index_offsets"][i], h["index_sizes"][i]) for i in range(3) if h["index_sizes"][i])
    spans.sort()
    for (a, n), (b, m) in zip(spans, spans[1:]):
        if a + n > b:
            bad["overlap"] = ((a, n), (b, m))
    if bad:
        ctx.violation("extract", dict(sub="model_mismatch", fields=",".join(sorted(bad))[:80]), dict(meta=meta, bad=repr(bad)[:800], offset=off), files=[datfile] if datfile else [])


def bucket(n):
    for b in (0, 1, 2, 4, 16, 64, 256):
        if n <= b:
            return "<=%d" % b
    return ">256"


def lbucket(n):
    for b in (128, 4096, 16000, 32000, 65536, 262144, 1 << 20):
        if n <= b:
            return "<=%d" % b
    return ">1MiB"
