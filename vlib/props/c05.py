"""C05 - Excel sheets decode to the cell values stored in them.

Monitor: reference-model monitor, cell by cell; ground truth = the values the independent
EXH/EXD builder planted. Direct buffers and the archive route (synthetic installation)."""
import os, shutil, struct
from ..core import digest
from ..fmt import excel as ex, sqpack as sq

LEVEL = "exploration"
RULE = ("random schemas (1..60 columns over the 19 column types at non-overlapping offsets, packed bools sharing bytes, shuffled definition order, 1..4 pages, "
        "language lists) and row sets (ids incl. 0 and 2^32-1, default rows and sub-row rows with 2..M sub-rows, ASCII strings of length 0..5000 in a heap addressed "
        "relative to the record's own fixed region, extreme numerics, NaN payloads, every packed-bool bit pattern); observations: EXH::from_existing, EXD::from_existing, "
        "read_row for every stored id and absent ids, calculate_filename, and the archive route get_all_sheet_names / read_excel_sheet_header / read_excel_sheet "
        "on a generated installation. non-trivial = row with >= 2 column types or >= 2 sub-rows or a string; distinct = digest of (schema, row values)")
ASSUMPTIONS = ["EXH/EXD layout as documented (Lumina): big-endian, 32-byte headers, string offsets relative to the end of the record's fixed region",
               "sub-row sheets holding a single sub-row are not generated (the variant byte is invisible through the API); language table only count/first entry asserted"]


def plan(tier):
    if tier == "quick":
        return [("debug", 16, dict(n=50, rows=30, big=True, arch=3)), ("release", 4, dict(n=30, rows=30, big=True, arch=2))]
    return [("debug", 16, dict(n=1200, rows=40, big=True, arch=30)), ("release", 8, dict(n=500, rows=40, big=True, arch=12)),
            ("asan", 4, dict(n=80, rows=25, big=False, arch=3)), ("memcheck", 2, dict(n=10, rows=12, big=False, arch=1))]


def gen_schema(rng):
    ncol = rng.choice([1, 2, 3, 5, 8, 12, 20, 40, 60])
    cols = []
    off = rng.choice([0, 0, 1, 4])
    packed_byte = None
    used_bits = set()
    for _ in range(ncol):
        t = rng.choice(ex.ALL_TYPES)
        if t >= 0x19:
            bit = t - 0x19
            if packed_byte is not None and bit not in used_bits and rng.random() < 0.8:
                cols.append((t, packed_byte)); used_bits.add(bit)
                continue
            packed_byte = off; used_bits = {bit}
            cols.append((t, off)); off += 1
            continue
        sz = ex.SIZE[t]
        if rng.random() < 0.5:
            off = (off + sz - 1) // sz * sz
        cols.append((t, off))
        off += sz + rng.choice([0, 0, 0, 1, 3])
    data_offset = off + rng.choice([0, 0, 2, 7])
    data_offset = max(data_offset, 1)
    rng.shuffle(cols)
    return cols, data_offset


STR_ALPHA = "abcdefghijklmnopqrstuvwxyzABCDEFGHIJKLMNOPQRSTUVWXYZ0123456789 _-.,:;!?<>()[]{}'\"/\\#%&*+=@~^|"


def gen_value(rng, t, tag=""):
    if t == ex.T_STRING:
        n = rng.choice([0, 0, 1, 5, 20, 200]) if rng.random() < 0.97 else 5000
        if rng.random() < 0.1:
            # ASCII also has control characters (the game's own markup brackets payloads with STX .. ETX); a cell is returned as stored
            return tag + "".join(rng.choice(STR_ALPHA + "\x01\x02\x02\x03\x03\x07\t\n\r\x1b\x7f") for _ in range(max(n, 6)))
        return tag + "".join(rng.choice(STR_ALPHA) for _ in range(n))
    if t == ex.T_BOOL or t >= 0x19:
        return rng.random() < 0.5
    if t == ex.T_F32:
        return rng.choice([0, 0x80000000, 0x3F800000, 0x7F800000, 0xFF800000, 0x7FC00001, 0xFFC12345, 0x7F800001, 0x00000001, rng.getrandbits(32), rng.getrandbits(32)])
    bits = {2: 8, 3: 8, 4: 16, 5: 16, 6: 32, 7: 32, 0xA: 64, 0xB: 64}[t]
    signed = t in (2, 4, 6, 0xA)
    lo, hi = (-(1 << (bits - 1)), (1 << (bits - 1)) - 1) if signed else (0, (1 << bits) - 1)
    return rng.choice([lo, hi, 0, 1, -1 if signed else hi - 1, rng.randint(lo, hi), rng.randint(lo, hi)])


def cell_expected(t, v):
    return dict(t=ex.TNAME[t], v=v)


def cells_equal(got, exp):
    if got["t"] != exp["t"]:
        return False
    if exp["t"] == "f32":
        g, e = got["v"], exp["v"]
        nan = lambda b: (b & 0x7F800000) == 0x7F800000 and (b & 0x7FFFFF) != 0
        return g == e or (nan(g) and nan(e))
    return got["v"] == exp["v"]


def gen_sheet(rng, nrows, big):
    cols, data_offset = gen_schema(rng)
    subrow = rng.random() < 0.35
    npages = rng.choice([1, 1, 2, 4])
    langs = rng.choice([[0], [0], [1, 2, 3, 4], [2], [1, 2, 3, 4, 5, 6, 7], [rng.randint(1, 7)]])
    pages = []
    start = rng.choice([0, 0, 1, 1000, rng.randrange(1 << 20)])
    allrows = {}
    for pi in range(npages):
        n = rng.randint(1, max(1, nrows // npages))
        ids = sorted(set([start] + [start + rng.randrange(0, 5000) for _ in range(n - 1)]))
        if pi == npages - 1 and rng.random() < 0.3:
            ids.append(2 ** 32 - 1)
        pages.append((start, ids[-1] - start + 1 if ids[-1] != 2 ** 32 - 1 else len(ids)))
        allrows[pi] = ids
        start = (ids[-1] if ids[-1] != 2 ** 32 - 1 else ids[-2] if len(ids) > 1 else start) + rng.randint(1, 3000)
    return dict(cols=cols, data_offset=data_offset, subrow=subrow, pages=pages, langs=langs, ids=allrows)


def gen_rows(rng, sheet, page, lang, big):
    rows = []
    for rid in sheet["ids"][page]:
        if sheet["subrow"]:
            nsub = rng.choice([2, 2, 3, 5, 12])
            if big and rng.random() < 0.04:
                nsub = rng.choice([100, 300])
            if big and rid == sheet["ids"][page][0] and rng.random() < 0.2:
                # a row whose sub-row area spans more than 64 KiB (the sub-row index times the record size needs more than 16 bits)
                nsub = min(6000, 65536 // (sheet["data_offset"] + 2) + rng.choice([1, 2, 40]))
        else:
            nsub = 1
        subs = [[gen_value(rng, t, "") for (t, o) in sheet["cols"]] for _ in range(nsub)]
        if sheet["subrow"] and rng.random() < 0.3:
            # the 2-byte id stored in front of a sub-row is data of its own: repeated, descending or arbitrary ids do not change
            # how many records a row has nor their order
            mode = rng.choice(["same", "descending", "random"])
            subs = [((0 if mode == "same" else nsub - 1 - i if mode == "descending" else rng.getrandbits(16)), v) for i, v in enumerate(subs)]
        rows.append((rid, subs))
    return rows


def check_rows(ctx, sheet, rows, hexd, hexh, files, via, all_ids=None):
    cols = sheet["cols"]
    types = {t for t, _ in cols}
    # rows are read from one live EXD object in an order unrelated to how they are stored, some of them twice
    # (front-to-back, back-to-front, random; re-reads of earlier rows after later ones)
    rows = list(rows)
    mode = ctx.rng.choice(["forward", "backward", "random", "random"])
    if mode == "backward":
        rows.reverse()
    elif mode == "random":
        ctx.rng.shuffle(rows)
    if rows:
        rows = rows + [rows[0]] + ctx.rng.sample(rows, min(len(rows), 3))
    ctx.stats.classes["read-order:" + mode] += 1
    for rid, subs in rows:
        subs = [sv[1] if isinstance(sv, tuple) else sv for sv in subs]
        r = ctx.call("exd.read_row", hexd, hexh, rid)
        ctx.check_mon(r, ctx._insz, files=files)
        nontriv = len(types) >= 2 or len(subs) >= 2 or ex.T_STRING in types
        classes = ["via:" + via, "subrows:%s" % sbucket(len(subs))] + ["type:%s" % tname(t) for t in types]
        ctx.case(digest(cols, rid, repr(subs)[:4000]), nontriv, classes,
                 sample=dict(row_id=rid, subrows=len(subs), columns=[(tname(t), o) for t, o in cols[:6]], first_cells=[str(v)[:30] for v in subs[0][:6]]))
        if r.outcome == "none":
            ctx.violation("decode", dict(sub="stored_row_missing", via=via), dict(row_id=rid), files=files)
            continue
        if not r.ok:
            continue
        got = r.value
        if len(got) != len(subs):
            ctx.violation("decode", dict(sub="subrow_count", via=via), dict(row_id=rid, got=len(got), expected=len(subs)), files=files)
            continue
        for si, (grow, erow) in enumerate(zip(got, subs)):
            if len(grow) != len(cols):
                ctx.violation("decode", dict(sub="column_count", via=via), dict(row_id=rid, got=len(grow), expected=len(cols)), files=files)
                break
            for ci, ((t, o), g, e) in enumerate(zip(cols, grow, erow)):
                if not cells_equal(g, cell_expected(t, e)):
                    ctx.violation("decode", dict(sub="cell_value", type=tname(t), subrows="many" if len(subs) > 1 else "one"),
                                  dict(row_id=rid, subrow=si, column=ci, offset=o, got=str(g)[:200], expected=str(e)[:200], data_offset=sheet["data_offset"], via=via), files=files)
    # unknown ids yield nothing
    known = set(all_ids) if all_ids is not None else {rid for rid, _ in rows}
    for rid in [x for x in (0, 1, 7, 2 ** 32 - 1, max(known) + 1 if max(known) < 2 ** 32 - 1 else 5, min(known) - 1 if min(known) > 0 else 3) if x not in known][:4]:
        r = ctx.call("exd.read_row", hexd, hexh, rid)
        ctx.check_mon(r, ctx._insz, files=files)
        ctx.case(digest("absent", cols, rid, sorted(known)[:50]), True, ["absent-id", "via:" + via])
        if r.ok:
            ctx.violation("decode", dict(sub="unknown_id_returned_row", via=via), dict(row_id=rid, got=str(r.value)[:300]), files=files)
    # rows of this sheet read by several threads at once from the one data / header object (only when handles are plain numbers:
    # the direct route), a sample of sheets
    if isinstance(hexd, int) and isinstance(hexh, int) and (ctx.rng.random() < 0.15 or ctx.variant == "miri"):
        ids = [rid for rid, _ in rows][:30] + [x for x in (0, 2 ** 32 - 1) if x not in known]
        ctx.shared_between_threads(["exd.read_row %d %d %d" % (hexd, hexh, rid) for rid in ids], "exd-rows", reps=10, files=files)


def tname(t):
    return "packed%d" % (t - 0x19) if t >= 0x19 else {0: "string", 1: "bool"}.get(t, ex.TNAME[t])


def sbucket(n):
    for b in (1, 2, 5, 12, 100, 300):
        if n <= b:
            return "<=%d" % b
    return ">300"


def check_exh(ctx, got, sheet, files, via):
    exp_cols = [dict(type=t, offset=o) for t, o in sheet["cols"]]
    exp_pages = [dict(start=s, count=c) for s, c in sheet["pages"]]
    bad = {}
    if got["data_offset"] != sheet["data_offset"]:
        bad["data_offset"] = (got["data_offset"], sheet["data_offset"])
    if got["columns"] != exp_cols:
        bad["columns"] = (str(got["columns"])[:300], str(exp_cols)[:300])
    if got["pages"] != exp_pages:
        bad["pages"] = (got["pages"], exp_pages)
    if got["row_count"] != sheet.get("row_count", 0):
        bad["row_count"] = (got["row_count"], sheet.get("row_count", 0))
    if len(got["languages"]) != len(sheet["langs"]) or got["languages"][:1] != sheet["langs"][:1]:
        bad["languages"] = (got["languages"], sheet["langs"])
    if bad:
        ctx.violation("decode", dict(sub="exh_header", via=via, fields=",".join(sorted(bad))), dict(bad=repr(bad)[:1000]), files=files)


def large_count_case(ctx, rng):
    """pages and schemas whose counts cross 8/16-bit limits: >= 8192 rows (index table >= 64 KiB), > 255 columns"""
    kind = rng.choice(["many-rows", "many-rows", "many-columns"])
    if kind == "many-rows":
        cols = [(rng.choice([ex.T_U32, ex.T_I16, ex.T_U8]), 0), (ex.T_STRING, 4)]
        data_offset = 8
        n = rng.choice([8191, 8192, 8193, 9000, 20000])
        start = rng.choice([0, 1, 100000])
        ids = list(range(start, start + n))
        if rng.random() < 0.5:
            ids = sorted(rng.sample(range(start, start + 4 * n), n))
    else:
        ncol = rng.choice([256, 257, 300, 700])
        cols = [(rng.choice([ex.T_U8, ex.T_I8, ex.T_BOOL]), i) for i in range(ncol)]
        data_offset = ncol
        ids = [0, 5, 70000]
    sheet = dict(cols=cols, data_offset=data_offset, subrow=False, pages=[(ids[0], ids[-1] - ids[0] + 1)], langs=[0], ids={0: ids}, row_count=len(ids))
    rows = [(rid, [[gen_value(rng, t, "") if t != ex.T_STRING else "r%d" % rid for (t, o) in cols]]) for rid in ids]
    exh = ex.build_exh(data_offset, cols, sheet["pages"], [0], row_count=len(ids))
    exd = ex.build_exd(data_offset, cols, rows)
    fh = ctx.write("l.exh", exh); fd = ctx.write("l.exd", exd)
    r = ctx.call("exh.parse", fh, input_bytes=len(exh))
    r2 = ctx.call("exd.parse", fd, input_bytes=len(exd))
    ctx.check_mon(r, len(exh), residual=False, files=[fh]); ctx.check_mon(r2, len(exd), residual=False, files=[fd])
    if not (r.ok and r2.ok):
        ctx.violation("decode", dict(sub="large_sheet_rejected", cls=kind), dict(rows=len(ids), columns=len(cols)), files=[fh])
        return
    check_exh(ctx, r.value["exh"], sheet, [fh], "direct")
    ctx._insz = len(exd) + len(exh)
    pick = sorted(set([0, 1, len(rows) - 1, len(rows) - 2, 8190, 8191, 8192, 8193] + [rng.randrange(len(rows)) for _ in range(12)]))
    sub = [rows[i] for i in pick if i < len(rows)]
    ctx.stats.classes["large:" + kind] += 1
    check_rows(ctx, sheet, sub, r2.value["handle"], r.value["handle"], [fh, fd], "direct", all_ids=ids)
    ctx.call("drop", r.value["handle"]); ctx.call("drop", r2.value["handle"])


def shard(ctx):
    rng, P = ctx.rng, ctx.params
    from .. import faults, seeds
    fr = __import__("random").Random("c05-failing-%d-%d" % (ctx.seed, ctx.index))
    bad = []
    for subrow in (False, True):
        exh_, exd_, _ids = seeds.excel_pair(fr, subrow)
        bad += [("exd.parse", (ctx.write("failing-%d-%d.exd" % (subrow, i), d),)) for i, d in enumerate(faults.damaged_variants(fr, exd_, 3))]
        bad += [("exh.parse", (ctx.write("failing-%d-%d.exh" % (subrow, i), d),)) for i, d in enumerate(faults.damaged_variants(fr, exh_, 2))]
    ctx.failing_calls_first(bad, before=("exd.parse", "exh.parse", "exd.read_row"), rate=0.02)
    for i in range(2 if ctx.tier == "quick" else 8):
        large_count_case(ctx, rng)
    for i in range(P["n"]):
        direct_case(ctx, rng, P)
    for i in range(P["arch"]):
        archive_case(ctx, rng, P)
    # file naming rule
    for _ in range(40):
        name = rng.choice(["Item", "quest/000/ClsHrv001_00003", "a", "Action_Transient"])
        lang = rng.randrange(8); start = rng.choice([0, 1, 500, 2 ** 32 - 1, rng.getrandbits(32)])
        r = ctx.call("exd.filename", name, lang, start)
        ctx.case(digest("fn", name, lang, start), True, ["filename", "lang:%d" % lang])
        if r.ok and r.value != ex.exd_filename(name, lang, start):
            ctx.violation("decode", dict(sub="exd_filename", lang=lang), dict(got=r.value, expected=ex.exd_filename(name, lang, start)))


def direct_case(ctx, rng, P):
    sheet = gen_sheet(rng, P["rows"], P["big"])
    sheet["row_count"] = rng.getrandbits(20)
    exh = ex.build_exh(sheet["data_offset"], sheet["cols"], sheet["pages"], sheet["langs"], variant=2 if sheet["subrow"] else 1, row_count=sheet["row_count"])
    fh = ctx.write("s.exh", exh)
    r = ctx.call("exh.parse", fh, input_bytes=len(exh))
    ctx.check_mon(r, len(exh), residual=False, files=[fh])
    if not r.ok:
        ctx.violation("decode", dict(sub="exh_parse_failed", via="direct"), dict(outcome=r.outcome), files=[fh])
        return
    hexh = r.value["handle"]
    check_exh(ctx, r.value["exh"], sheet, [fh], "direct")
    page = rng.randrange(len(sheet["pages"]))
    rows = gen_rows(rng, sheet, page, 0, P["big"])
    index_order = None
    if len(rows) >= 2 and rng.random() < 0.4:
        index_order = list(range(len(rows)))
        rng.shuffle(index_order) if rng.random() < 0.7 else index_order.reverse()
    exd = ex.build_exd(sheet["data_offset"], sheet["cols"], rows, subrow_sheet=sheet["subrow"], junk=rng.choice([b"", b"\0" * 8, b"\xCD" * 3]), index_order=index_order)
    ctx.stats.classes["exd-index:%s" % ("permuted" if index_order else "storage-order")] += 1
    fd = ctx.write("s.exd", exd)
    ctx._insz = len(exd) + len(exh)
    r2 = ctx.call("exd.parse", fd, input_bytes=len(exd))
    ctx.check_mon(r2, len(exd), residual=False, files=[fd])
    if r2.ok:
        check_rows(ctx, sheet, rows, r2.value["handle"], hexh, [fh, fd], "direct")
        ctx.call("drop", r2.value["handle"])
    else:
        ctx.violation("decode", dict(sub="exd_parse_failed", via="direct"), dict(outcome=r2.outcome), files=[fd])
    ctx.call("drop", hexh)


def archive_case(ctx, rng, P):
    root = ctx.path("xgame")
    plat = rng.choice(list(sq.PLATFORMS))
    rd = os.path.join(root, "sqpack", "ffxiv")
    os.makedirs(rd)
    try:
        db = sq.DatBuilder(sq.PLATFORMS[plat])
        names = []
        for k in range(rng.randint(1, 4)):
            names.append(rng.choice(["Item", "Action", "quest/000/ClsHrv%03d_%05d" % (k, k), "custom/000/RegSea%d" % k, "Sheet%d" % k, "MixedCaseSheet%d" % k]))
        names = list(dict.fromkeys(names))
        files = {}
        root_exl = ("EXLT,2" + "".join("\r\n%s,%d" % (n, rng.choice([i, -1, -2147483648, 2147483647, 0])) for i, n in enumerate(names))).encode()
        files["exd/root.exl"] = root_exl
        sheets = {}
        for n in names:
            sheet = gen_sheet(rng, max(4, P["rows"] // 3), False)
            sheets[n] = sheet
            files["exd/%s.exh" % n.lower()] = ex.build_exh(sheet["data_offset"], sheet["cols"], sheet["pages"], sheet["langs"], variant=2 if sheet["subrow"] else 1)
            sheet["data"] = {}
            for pi, (start, cnt) in enumerate(sheet["pages"]):
                for lang in sheet["langs"]:
                    rows = gen_rows(rng, sheet, pi, lang, False)
                    sheet["data"][(pi, lang)] = rows
                    files["exd/" + ex.exd_filename(n, lang, start)] = ex.build_exd(sheet["data_offset"], sheet["cols"], rows, subrow_sheet=sheet["subrow"])
        kind = rng.choice([1, 2])
        ents = []
        for p, content in files.items():
            chunks = sq.split(content, [rng.choice([16000, 700, 3000])]) or [b""]
            entry, _ = sq.standard_entry(chunks, [rng.choice(["raw", "dynamic", "fixed"]) for _ in chunks])
            off = db.add(entry)
            ents.append((sq.hash1(p) if kind == 1 else sq.hash2(p), 0, off, False))
        dat = db.bytes()
        open(os.path.join(rd, sq.dat_filename(0xA, 0, 0, plat, 0)), "wb").write(dat)
        open(os.path.join(rd, sq.index_filename(0xA, 0, 0, plat, kind)), "wb").write(sq.index_file(kind, ents, sq.PLATFORMS[plat]))
        ctx._insz = len(dat)
        r = ctx.call("gd.open", plat, root)
        if not r.ok:
            ctx.violation("decode", dict(sub="gd_open_failed"), {}, files=[root])
            return
        g = r.value["handle"]
        rn = ctx.call("gd.sheet_names", g, input_bytes=len(dat))
        ctx.check_mon(rn, len(dat), residual=False, files=[root])
        ctx.case(digest("names", names), True, ["via:archive", "sheet-names"])
        if rn.outcome == "none" or (rn.ok and rn.value != names):
            ctx.violation("decode", dict(sub="sheet_names"), dict(got=rn.value, expected=names), files=[root])
        for n in names:
            sheet = sheets[n]
            rh = ctx.call("gd.exh", g, n, input_bytes=len(dat))
            ctx.check_mon(rh, len(dat), residual=False, files=[root])
            if not rh.ok:
                if rh.outcome == "none":
                    ctx.violation("decode", dict(sub="sheet_header_not_found"), dict(sheet=n), files=[root])
                continue
            hexh = rh.value["handle"]
            check_exh(ctx, rh.value["exh"], sheet, [root], "archive")
            for (pi, lang), rows in sheet["data"].items():
                rd_ = ctx.call("gd.exd", g, n, hexh, lang, pi, input_bytes=len(dat))
                ctx.check_mon(rd_, len(dat), residual=False, files=[root])
                ctx.stats.classes["archive-lang:%d" % lang] += 1
                if rd_.outcome == "none":
                    ctx.violation("decode", dict(sub="sheet_page_not_found", lang=lang), dict(sheet=n, page=pi, lang=lang), files=[root])
                    continue
                if rd_.ok:
                    check_rows(ctx, sheet, rows, rd_.value["handle"], hexh, [root], "archive")
                    ctx.call("drop", rd_.value["handle"])
            ctx.call("drop", hexh)
        # a sheet that is not listed yields nothing
        ra = ctx.call("gd.exh", g, "NoSuchSheet", input_bytes=len(dat))
        if ra.ok:
            ctx.violation("decode", dict(sub="unlisted_sheet_found"), {}, files=[root])
        ctx.call("drop", g)
    finally:
        shutil.rmtree(root, ignore_errors=True)
