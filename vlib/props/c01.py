"""C01 - archive lookup finds every stored game path, and only stored paths.

Monitor: reference-model monitor over query histories on live GameData handles + order-independence
invariant (same multiset of queries on a fresh handle in another order gives identical answers).
Every stored location carries a unique payload so an extract identifies the location that was read."""
import itertools, os, shutil
from ..core import digest
from ..fmt import sqpack as sq

LEVEL = "exploration"
RULE = ("random installations (platform in win32/ps3/ps4/ps5/lys, base + random expansions ex1..ex9, 2..7 (repository, category, chunk 0..9) groups with .index, "
        ".index2 or both, 1..300 (occasionally 2000) entries spread over dat0..dat7, synonym bits set at random, unique payload per location); "
        "queries exists/find_offset/extract randomly interleaved on one handle over stored paths, case variants (incl. category / repository segment), near misses "
        "(same folder other file, same file other folder, stored in another repository / category / unknown category / no slash) and random absent paths, "
        "then the same queries in another order on a fresh handle; installation shapes with > 65 536 entries in one index, 70..95 index files on one handle and dat files "
        "addressed beyond 4 GiB (sparse); every history of length <= 2 (thorough: <= 4) over a 9-letter alphabet of (operation, path) pairs that touch different "
        "index files / stored vs absent / case variants, each on a fresh handle; two installations (three handles) alive at once with interleaved queries. Oracle: Python index model on hashes (zlib.crc32). "
        "non-trivial = query expected present or a near miss; distinct = digest of (installation, query kind, path)")
ASSUMPTIONS = ["index / dat layouts as documented for SqPack (the library accepts the generated files)",
               "when a path names a repository that is not installed, both 'absent' and 'looked up in the base repository' are accepted (leniency)"]

CATS = list(sq.CATEGORIES)


def plan(tier):
    if tier == "quick":
        return [("debug", 16, dict(n=8, nq=150, hist=2)), ("release", 4, dict(n=4, nq=120, hist=2))]
    return [("debug", 16, dict(n=180, nq=220, hist=4)), ("release", 8, dict(n=60, nq=200, hist=3)), ("asan", 4, dict(n=12, nq=120, hist=2))]


SEG = "abcdefghijklmnopqrstuvwxyzABCDEFGHIJKLMNOPQRSTUVWXYZ0123456789_-"


def seg(rng, a=1, b=10):
    return "".join(rng.choice(SEG) for _ in range(rng.randint(a, b)))


def gen_path(rng, cat, exp):
    depth = rng.choice([1, 1, 2, 3, 5])
    parts = [cat]
    if exp > 0:
        parts.append("ex%d" % exp)
    elif rng.random() < 0.25:
        parts.append("ffxiv")
    for _ in range(depth - 1 if len(parts) > 1 else depth - 1):
        parts.append(seg(rng))
    fname = seg(rng) + rng.choice([".mdl", ".tex", ".exd", ".lgb", "", ".SCD"])
    parts.append(fname)
    return "/".join(parts)


class Inst:
    pass


def build_installation(ctx, rng, root, shape="normal"):
    """shape: normal | huge-index (one index with > 65536 entries) | many-files (> 64 index files behind one handle)"""
    inst = Inst()
    inst.shape = shape
    inst.far = False
    inst.platform = rng.choice(list(sq.PLATFORMS))
    pid = sq.PLATFORMS[inst.platform]
    inst.exps = sorted(rng.sample(range(1, 10), rng.choice([0, 1, 2, 3, 9])))
    os.makedirs(os.path.join(root, "sqpack", "ffxiv"))
    for e in inst.exps:
        os.makedirs(os.path.join(root, "sqpack", "ex%d" % e))
        if rng.random() < 0.6:
            open(os.path.join(root, "sqpack", "ex%d" % e, "ex%d.ver" % e), "w").write("2012.01.01.0000.0000")
    if rng.random() < 0.7:
        open(os.path.join(root, "ffxivgame.ver"), "w").write("2012.01.01.0000.0000")
    # index[(exp, cat)][chunk][kind] = {hash: [(dat, offset)]}
    inst.index = {}
    inst.stored = []  # (path, exp, cat, chunk, kind)
    inst.payload = {}  # (exp, cat, chunk, dat, offset) -> bytes
    inst.bytes = 0
    groups = set()
    ngroups = rng.randint(2, 7) if shape != "many-files" else rng.randint(70, 95)
    for gi in range(ngroups):
        exp = rng.choice([0] + inst.exps)
        cat = rng.choice(CATS)
        chunk = rng.choice([0, 0, 1, 2, rng.randrange(10)]) if shape != "many-files" else rng.randrange(10)
        if (exp, cat, chunk) in groups:
            continue
        groups.add((exp, cat, chunk))
        kinds = rng.choice([(1,), (2,), (1, 2)])
        n = rng.choice([1, 2, 10, 60, 300]) if rng.random() < 0.93 else 2000
        if shape == "many-files":
            n = rng.choice([1, 2, 5])
        huge = shape == "huge-index" and gi == 0
        if huge:
            kinds = (rng.choice([1, 2]),)
            n = 40
        cid = sq.CATEGORIES[cat]
        dats = {}
        paths = [gen_path(rng, cat, exp) for _ in range(n)]
        # some paths deliberately placed in the "wrong" repository (reachable only through it by hash, not by name)
        if rng.random() < 0.3:
            other = rng.choice([0] + inst.exps)
            paths += [gen_path(rng, cat, other) for _ in range(3)]
        locs = {}
        far = {}   # dat id -> shift: the entries of that dat file live beyond 4 GiB (sparse file), the index addresses up to 2^35
        for p in paths:
            datid = rng.randrange(8) if rng.random() < 0.5 else rng.randrange(2)
            if datid not in dats and rng.random() < 0.1 and not huge:
                far[datid] = rng.choice([(1 << 32) - 4096, 1 << 32, (1 << 33) + 128 * rng.randrange(1000), (1 << 35) - (1 << 24)])
            db = dats.setdefault(datid, sq.DatBuilder(pid))
            gap = rng.choice([0, 0, 3])
            off = (len(db.buf) + gap * 128 + 127) // 128 * 128 + far.get(datid, 0)
            payload = ("LOC %s/%s/%d/%d/%d" % (sq.repo_name(exp), cat, chunk, datid, off)).encode()
            entry, _ = sq.standard_entry([payload], [rng.choice(["raw", "raw", "dynamic"])])
            got = db.add(entry, gap_blocks=gap) + far.get(datid, 0)
            assert got == off
            locs[p] = (datid, off)
            inst.payload[(exp, cat, chunk, datid, off)] = payload
        rd = os.path.join(root, "sqpack", sq.repo_name(exp))
        for datid, db in dats.items():
            b = db.bytes()
            inst.bytes += len(b)
            with open(os.path.join(rd, sq.dat_filename(cid, exp, chunk, inst.platform, datid)), "wb") as f:
                if datid in far:
                    f.write(b[:2048])
                    f.seek(2048 + far[datid])
                    f.write(b[2048:])
                    inst.far = True
                else:
                    f.write(b)
        for kind in kinds:
            sub = [p for p in paths if len(kinds) == 1 or rng.random() < 0.8] or paths[:1]
            ents = []
            table = {}
            for p in sub:
                h = sq.hash1(p) if kind == 1 else sq.hash2(p)
                d, o = locs[p]
                ents.append((h, d, o, rng.random() < 0.1))
                table.setdefault(h, []).append((d, o))
                inst.stored.append((p, exp, cat, chunk, kind))
            rng.shuffle(ents)
            if huge:
                # > 65536 entries: filler paths share the few real locations; the planted paths are spread
                # over the whole table, in particular around the 16-bit boundary and at the very end
                total = rng.choice([65536, 65537, 66000, 70001])
                planted = list(ents)
                filler = []
                real = list(locs.values())
                inst.boundary = []
                for k in range(total - len(planted)):
                    fp = "%s/%sfill/%06d.dat" % (cat, ("ex%d/" % exp) if exp else "", k)
                    h = sq.hash1(fp) if kind == 1 else sq.hash2(fp)
                    d, o = real[k % len(real)]
                    filler.append((h, d, o, False))
                    if k in (0, 65500, 65534, 65535, 65536, total - len(planted) - 1) or k % 9973 == 0:
                        table.setdefault(h, []).append((d, o))
                        inst.stored.append((fp, exp, cat, chunk, kind))
                        inst.boundary.append(fp)
                # planted entries at the front, in the middle, after the boundary and at the end
                q = len(planted) // 4
                ents = planted[:q] + filler[:65530] + planted[q:2 * q] + filler[65530:65540] + planted[2 * q:3 * q] + filler[65540:] + planted[3 * q:]
            b = sq.index_file(kind, ents, pid, ndats=max(dats) + 1, folders=rng.random() < 0.5)
            inst.bytes += len(b)
            open(os.path.join(rd, sq.index_filename(cid, exp, chunk, inst.platform, kind)), "wb").write(b)
            inst.index.setdefault((exp, cat), {}).setdefault(chunk, {})[kind] = table
        if shape == "normal" and rng.random() < 0.25:
            # a file with an index name that holds no index (empty, cut short, foreign bytes) contains no path; the other index files of
            # the category - the sibling of the same chunk, the other chunks - are still there to be searched
            stray = []
            if len(kinds) == 1:
                stray.append(sq.index_filename(cid, exp, chunk, inst.platform, 3 - kinds[0]))
            oc = next((c for c in range(10) if (exp, cat, c) not in groups and c != chunk), None)
            if oc is not None and not any((exp, cat, c2) in groups for c2 in [oc]):
                stray.append(sq.index_filename(cid, exp, oc, inst.platform, rng.choice([1, 2])))
                groups.add((exp, cat, oc))
            for fn in stray:
                if not os.path.exists(os.path.join(rd, fn)):
                    open(os.path.join(rd, fn), "wb").write(rng.choice([b"", b"SqPack\0\0", rng.randbytes(700), b[:1500]]))
                    inst.stray = getattr(inst, "stray", 0) + 1
    return inst


def expected(inst, path):
    """-> (present: bool|None(lenient), locations set of (exp, cat, chunk, dat, off), cls)"""
    if "/" not in path:
        return False, set(), "no-slash"
    first, rest = path.split("/", 1)
    cat = first.lower()
    if cat not in sq.CATEGORIES:
        return False, set(), "unknown-category"
    second = rest.split("/", 1)[0].lower()
    lenient = False
    exp = 0
    if second.startswith("ex") and second[2:].isdigit() and len(second) == 3 and second != "ex0":
        n = int(second[2:])
        if n in inst.exps:
            exp = n
        else:
            lenient = True
    locs = set()
    if "/" in path:
        for chunk, kinds in inst.index.get((exp, cat), {}).items():
            for kind, table in kinds.items():
                h = sq.hash1(path) if kind == 1 else sq.hash2(path)
                for d, o in table.get(h, []):
                    locs.add((exp, cat, chunk, d, o))
    if lenient:
        return None, locs, "repository-not-installed"
    return bool(locs), locs, "ok"


def variants(rng, p):
    k = rng.random()
    if k < 0.3:
        return p.upper()
    if k < 0.6:
        return p.swapcase()
    if k < 0.8:
        return p.lower()
    return "".join(c.upper() if rng.random() < 0.5 else c.lower() for c in p)


def make_queries(rng, inst, nq):
    qs = []
    stored = [s[0] for s in inst.stored]
    for _ in range(nq):
        k = rng.random()
        if stored and k < 0.35:
            qs.append((rng.choice(stored), "stored"))
        elif stored and k < 0.55:
            qs.append((variants(rng, rng.choice(stored)), "case-variant"))
        elif stored and k < 0.8:
            p = rng.choice(stored)
            parts = p.split("/")
            m = rng.randrange(7)
            if m == 0:
                parts[-1] = seg(rng) + ".dat"; cls = "near:other-file"
            elif m == 1 and len(parts) > 2:
                parts[-2] = seg(rng); cls = "near:other-folder"
            elif m == 2:
                parts[0] = rng.choice([c for c in CATS if c != parts[0].lower()]); cls = "near:other-category"
            elif m == 3:
                parts[0] = rng.choice(["what", "exdx", "", "ch"]); cls = "near:unknown-category"
            elif m == 4:
                # other repository: insert / replace / remove the repository segment
                if parts[1].lower().startswith("ex") and len(parts) > 2:
                    parts[1] = rng.choice(["ex%d" % e for e in range(1, 10)] + ["ffxiv"])
                else:
                    parts.insert(1, "ex%d" % rng.randint(1, 9))
                cls = "near:other-repository"
            elif m == 5:
                parts = [parts[0] + parts[-1]]; cls = "near:no-slash"
            else:
                parts[-1] = parts[-1] + "x"; cls = "near:suffix"
            qs.append(("/".join(parts), cls))
        else:
            cat = rng.choice(CATS)
            qs.append((gen_path(rng, cat, rng.choice([0] + inst.exps)), "random-absent"))
    return qs


def exhaustive_histories(ctx, rng, maxlen):
    """every history of length <= maxlen over an alphabet of (operation, path) letters, each on a fresh handle: the paths are chosen so
    that the letters differ in the state they touch (two different index files, a stored and an absent path of the same file, a case
    variant, another repository), which is what a cache- or history-dependent answer would hinge on"""
    root = ctx.path("game-hist")
    inst = build_installation(ctx, rng, root, "normal")
    try:
        by_file = {}
        for (p, exp, cat, chunk, kind) in inst.stored:
            by_file.setdefault((exp, cat, chunk), []).append(p)
        files = sorted(by_file)
        if len(files) < 2:
            return
        fa, fb = files[0], files[-1]
        pa, pb = by_file[fa][0], by_file[fb][0]
        absent = pa.rsplit("/", 1)[0] + "/" + seg(rng) + ".none"
        paths = [pa, pb, absent, variants(rng, pa)]
        letters = [(op, p) for p in paths for op in ("exists", "extract")] + [("find_offset", pa)]
        model = {p: expected(inst, p) for p in paths}
        ikey = digest(sorted(inst.payload))
        mine = [h for k, h in enumerate(h for L in range(1, maxlen + 1) for h in itertools.product(range(len(letters)), repeat=L)) if k % ctx.nshards == ctx.index]
        for hist in mine:
            r = ctx.call("gd.open", inst.platform, root)
            if not r.ok:
                return
            h = r.value["handle"]
            for pos, li in enumerate(hist):
                op, path = letters[li]
                rec = ctx.call("gd." + op, h, path, *(["-"] if op == "extract" else []), input_bytes=inst.bytes)
                ctx.check_mon(rec, inst.bytes, residual=False, files=[root])
                if rec.outcome not in ("ok", "none"):
                    continue
                ans = (rec.outcome, rec.value if op != "extract" else (rec.value or {}).get("hex"))
                present, locs, ecls = model[path]
                if pos == len(hist) - 1:
                    ctx.case(digest(ikey, hist), True, ["history-exhaustive:len%d" % len(hist), "q:" + op], sample=dict(history=[letters[k] for k in hist], last_answer=str(ans)[:60]))
                judge(ctx, inst, op, path, "history", ans, present, locs, root)
            ctx.call("drop", h)
    finally:
        shutil.rmtree(root, ignore_errors=True)


def crc_collision_pair(rng):
    """two distinct paths of one category whose full-path CRC-32 is equal (birthday search) but whose folder / file-name hashes differ"""
    seen = {}
    for _ in range(400000):
        p = "bg/ffxiv/zon_z1/%s/%s.dat" % (seg(rng, 6, 6).lower(), seg(rng, 8, 8).lower())
        h = sq.hash2(p)
        q = seen.get(h)
        if q is not None and q != p and sq.hash1(q) != sq.hash1(p):
            return q, p
        seen[h] = p
    return None


def colliding_paths(ctx, rng):
    """X is stored, Y (same full-path CRC, other folder and file-name hashes) is not: an index keyed on (folder, file) hashes must keep
    them apart in whatever order they are asked for; an index keyed on the full-path hash legitimately cannot"""
    pair = crc_collision_pair(rng)
    if pair is None:
        ctx.note("no CRC collision found in 400 000 paths")
        return
    x, y = pair
    for kind in (1, 2):
        root = ctx.path("game-coll%d" % kind)
        rd = os.path.join(root, "sqpack", "ffxiv")
        os.makedirs(rd)
        db = sq.DatBuilder(0)
        payload = b"LOC collision X"
        entry, _ = sq.standard_entry([payload], ["raw"])
        off = db.add(entry)
        open(os.path.join(rd, sq.dat_filename(sq.CATEGORIES["bg"], 0, 0, "win32", 0)), "wb").write(db.bytes())
        h = sq.hash1(x) if kind == 1 else sq.hash2(x)
        open(os.path.join(rd, sq.index_filename(sq.CATEGORIES["bg"], 0, 0, "win32", kind)), "wb").write(sq.index_file(kind, [(h, 0, off, False)], 0, ndats=1))
        y_present = kind == 2       # the full-path hash of Y is in the index2 file
        try:
            for order in ((x, y), (y, x), (x, y, x, y)):
                r = ctx.call("gd.open", "win32", root)
                if not r.ok:
                    break
                hd = r.value["handle"]
                for p in order:
                    for op in ("exists", "extract"):
                        rec = ctx.call("gd." + op, hd, p, *(["-"] if op == "extract" else []), input_bytes=4096)
                        ctx.check_mon(rec, 4096, residual=False, files=[root])
                        if rec.outcome not in ("ok", "none"):
                            continue
                        said = bool(rec.value) if op == "exists" else rec.ok
                        want = True if p == x else y_present
                        ctx.case(digest("coll", kind, order, p, op), True, ["crc-collision-pair", "crc-collision:index%d" % kind], sample=dict(stored=x, same_full_crc=y, index=kind, order=list(order)) if p == y and op == "exists" else None)
                        if said != want:
                            ctx.violation("lookup", dict(sub="present_but_not_stored" if said else "stored_but_absent", q=op, cls="crc-collision"),
                                          dict(stored=x, queried=p, full_path_crc=sq.hash2(x), index_kind=kind, order=list(order)), files=[root])
                ctx.call("drop", hd)
        finally:
            shutil.rmtree(root, ignore_errors=True)


# paths whose hashes are zero (found by inverting the CRC; checked against zlib when the module loads): an all-zero hash is a hash like
# any other, not an empty slot. First: full-path hash 0 (index2); second: folder hash 0 and file-name hash 0 (index)
ZERO_HASH_PATHS = ["exd/kjmclhy1m.exh", "chara/equipment/evugyy1hl2/cefwfcgguk.mdl"]
assert sq.hash2(ZERO_HASH_PATHS[0]) == 0 and sq.hash1(ZERO_HASH_PATHS[1]) in ((0, 0), 0), (sq.hash2(ZERO_HASH_PATHS[0]), sq.hash1(ZERO_HASH_PATHS[1]))


def small_installation(root, cat, kind, paths, payloads, folders=False):
    rd = os.path.join(root, "sqpack", "ffxiv")
    os.makedirs(rd, exist_ok=True)
    db = sq.DatBuilder(0)
    ents = []
    for p, pl in zip(paths, payloads):
        entry, _ = sq.standard_entry([pl], ["raw"])
        off = db.add(entry)
        ents.append((sq.hash1(p) if kind == 1 else sq.hash2(p), 0, off, False))
    open(os.path.join(rd, sq.dat_filename(sq.CATEGORIES[cat], 0, 0, "win32", 0)), "wb").write(db.bytes())
    open(os.path.join(rd, sq.index_filename(sq.CATEGORIES[cat], 0, 0, "win32", kind)), "wb").write(sq.index_file(kind, ents, 0, ndats=1, folders=folders))


def nested_folders(ctx, rng):
    """folders that are prefixes of one another (F, F/sub, F/sub/deep, Fx), one file name in all of them, asked for one right after the
    other in every order on one handle and across handles; and index files whose folder table is sloppy (records missing, ranges too
    short) while their entry table is complete - the property is stated on the entries"""
    for kind in (1, 2):
        cat = rng.choice(["bg", "chara", "vfx"])
        F = "%s/%s" % (cat, seg(rng, 3, 6).lower())
        nm = seg(rng, 3, 8).lower() + ".dat"
        stored = [F + "/" + nm, F + "/sub/" + nm, F + "/sub/deep/" + seg(rng, 3, 6).lower() + ".tex", F + "x/" + nm, F + "/sub/other.mdl"]
        absent = [F + "/sub/deep/" + nm, F + "/su/" + nm, F + "/" + "other.mdl", cat + "/" + nm]
        for ftab in ([False, True, "sloppy"] if kind == 1 else [False]):
            root = ctx.path("game-nested%d" % kind)
            try:
                fo = ftab
                if ftab == "sloppy":
                    how = rng.choice(["drop", "short", "empty"])
                    fo = (lambda recs, how=how: [] if how == "empty" else [r_ for i_, r_ in enumerate(recs) if i_ % 2] if how == "drop" else [(h_, o_, max(0, z_ - 16)) for h_, o_, z_ in recs])
                small_installation(root, cat, kind, stored, [("LOC nested %d" % i).encode() for i in range(len(stored))], folders=fo)
                r = ctx.call("gd.open", "win32", root)
                if not r.ok:
                    continue
                order = stored + absent
                seqs = [order, order[::-1]] + [rng.sample(order, len(order)) for _ in range(3)]
                extra = dict(index_kind=kind, folder_table=str(ftab))
                for sq_ in seqs:
                    for p in sq_:
                        want = p in stored
                        ask(ctx, r.value["handle"], p, want, ("LOC nested %d" % stored.index(p)).encode() if want else b"", "nested-folders:table-%s" % ftab, root, extra)
                ctx.call("drop", r.value["handle"])
            finally:
                shutil.rmtree(root, ignore_errors=True)


def ask(ctx, hd, path, want, payload, cls, root, extra):
    for op in ("exists", "extract"):
        rec = ctx.call("gd." + op, hd, path, *(["-"] if op == "extract" else []), input_bytes=8192)
        ctx.check_mon(rec, 8192, residual=False, files=[root])
        if rec.outcome not in ("ok", "none"):
            continue
        said = bool(rec.value) if op == "exists" else rec.ok
        ctx.case(digest(cls, path, op, want, repr(extra)), True, [cls], sample=dict(path=path, expected_present=want, **extra) if op == "exists" else None)
        if said != want:
            ctx.violation("lookup", dict(sub="present_but_not_stored" if said else "stored_but_absent", q=op, cls=cls), dict(queried=path, **extra), files=[root])
        elif want and op == "extract" and bytes.fromhex((rec.value or {}).get("hex", "")) != payload:
            ctx.violation("lookup", dict(sub="wrong_content", q=op, cls=cls), dict(queried=path, **extra), files=[root])


def zero_hashes_and_reopen(ctx, rng):
    """(1) stored paths whose hash is 0; (2) a second handle opened on a directory after one of its index files was replaced: it must
    answer from the files as they are now, whatever an earlier handle of the same process had loaded from the same file names"""
    for kind, zp_ in ((2, ZERO_HASH_PATHS[0]), (1, ZERO_HASH_PATHS[1])):
        root = ctx.path("game-zero%d" % kind)
        cat = zp_.split("/")[0]
        sib = zp_.rsplit("/", 1)[0] + "/" + seg(rng, 5, 9).lower() + ".dat"
        try:
            small_installation(root, cat, kind, [zp_, sib], [b"LOC zero-hash path", b"LOC sibling"])
            r = ctx.call("gd.open", "win32", root)
            if r.ok:
                for p, pl in rng.sample([(zp_, b"LOC zero-hash path"), (sib, b"LOC sibling"), (zp_.upper(), b"LOC zero-hash path")], 3):
                    ask(ctx, r.value["handle"], p, True, pl, "hash-zero-path", root, dict(index_kind=kind))
                ask(ctx, r.value["handle"], zp_[:-1] + "x", False, b"", "hash-zero-path", root, dict(index_kind=kind))
                ctx.call("drop", r.value["handle"])
        finally:
            shutil.rmtree(root, ignore_errors=True)
    for kind in (1, 2):
        root = ctx.path("game-reopen%d" % kind)
        cat = rng.choice(["bg", "chara", "exd", "music"])
        gen = lambda: ["%s/%s/%s.%s" % (cat, seg(rng, 3, 8).lower(), seg(rng, 3, 10).lower(), rng.choice(["dat", "tex", "mdl"])) for _ in range(rng.randint(2, 6))]
        s1, s2 = gen(), gen()
        keep = rng.random() < 0.5
        try:
            small_installation(root, cat, kind, s1, [("LOC first %d" % i).encode() for i in range(len(s1))])
            r1 = ctx.call("gd.open", "win32", root)
            if not r1.ok:
                continue
            for p in s1 + s2[:1]:
                ctx.call("gd.exists", r1.value["handle"], p)           # the first handle loads (and may keep) the file; it is not judged afterwards
            if not keep:
                ctx.call("drop", r1.value["handle"])
            small_installation(root, cat, kind, s2, [("LOC second %d" % i).encode() for i in range(len(s2))])
            r2 = ctx.call("gd.open", "win32", root)
            if r2.ok:
                extra = dict(index_kind=kind, first_handle_still_open=keep)
                for p in rng.sample(s1 + s2, len(s1) + len(s2)):
                    want = p in s2
                    ask(ctx, r2.value["handle"], p, want, ("LOC second %d" % s2.index(p)).encode() if want else b"", "reopened-after-index-replaced", root, extra)
                ctx.call("drop", r2.value["handle"])
            if keep:
                ctx.call("drop", r1.value["handle"])
        finally:
            shutil.rmtree(root, ignore_errors=True)


def two_handles(ctx, rng, nq):
    """two installations open at the same time, queries interleaved between the two handles (and a second handle on the first
    installation): an answer must come from the handle's own installation, whatever another live handle has loaded"""
    ra, rb = ctx.path("game-a"), ctx.path("game-b")
    ia = build_installation(ctx, rng, ra, "normal")
    ib = build_installation(ctx, rng, rb, "normal")
    try:
        hs = []
        for inst, root in ((ia, ra), (ib, rb), (ia, ra)):
            r = ctx.call("gd.open", inst.platform, root)
            if not r.ok:
                return
            hs.append((r.value["handle"], inst, root))
        # paths stored in one installation are queried on the other too (same category names, other content)
        stored = [s[0] for s in ia.stored[:40]] + [s[0] for s in ib.stored[:40]]
        for k in range(nq):
            h, inst, root = hs[rng.randrange(3)]
            path = rng.choice(stored) if rng.random() < 0.8 else variants(rng, rng.choice(stored))
            op = rng.choice(["exists", "find_offset", "extract"])
            rec = ctx.call("gd." + op, h, path, *(["-"] if op == "extract" else []), input_bytes=inst.bytes)
            ctx.check_mon(rec, inst.bytes, residual=False, files=[root])
            if rec.outcome not in ("ok", "none"):
                continue
            ans = (rec.outcome, rec.value if op != "extract" else (rec.value or {}).get("hex"))
            present, locs, ecls = expected(inst, path)
            ctx.case(digest("two", sorted(ia.payload)[:3], sorted(ib.payload)[:3], k, op, path), True, ["two-handles", "q:" + op, "expect:" + ("lenient" if present is None else "present" if present else "absent")],
                     sample=dict(handles=3, installations=2, query=op, path=path) if k == 0 else None)
            judge(ctx, inst, op, path, "two-handles", ans, present, locs, root)
        for h, _, _ in hs:
            ctx.call("drop", h)
    finally:
        shutil.rmtree(ra, ignore_errors=True)
        shutil.rmtree(rb, ignore_errors=True)


def shard(ctx):
    rng, P = ctx.rng, ctx.params
    exhaustive_histories(ctx, rng, P.get("hist", 2))
    for _ in range(P.get("two", 1)):
        two_handles(ctx, rng, 120)
    if ctx.index % 4 == 0 and ctx.variant != "asan":
        colliding_paths(ctx, rng)
    zero_hashes_and_reopen(ctx, rng)
    nested_folders(ctx, rng)
    for i in range(P["n"]):
        root = ctx.path("game%d" % i)
        shape = "normal"
        if i == 0:
            shape = "many-files" if ctx.index % 2 == 0 else "huge-index"
        elif ctx.tier == "thorough" and i % 15 == 1:
            shape = rng.choice(["many-files", "huge-index"])
        inst = build_installation(ctx, rng, root, shape)
        try:
            run_installation(ctx, rng, inst, root, P["nq"], i)
        finally:
            shutil.rmtree(root, ignore_errors=True)


def run_installation(ctx, rng, inst, root, nq, ino):
    qs = make_queries(rng, inst, nq)
    if getattr(inst, "boundary", None):
        qs += [(p, "stored") for p in inst.boundary]
    if inst.shape == "many-files":
        # one stored path of every index file, so that a single handle really loads them all
        seen = set()
        for (p, exp, cat, chunk, kind) in inst.stored:
            if (exp, cat, chunk, kind) not in seen:
                seen.add((exp, cat, chunk, kind))
                qs.append((p, "stored"))
    ctx.stats.classes["shape:" + inst.shape] += 1
    if getattr(inst, "stray", 0):
        ctx.stats.classes["stray-unparsable-index-files"] += inst.stray
    hist = [(rng.choice(["exists", "find_offset", "extract"]), p, cls) for p, cls in qs]
    # repeat some queries later in the history (hit after miss, miss after hit, warm cache)
    hist += [rng.choice(hist) for _ in range(len(hist) // 4)]
    answers = {}
    ikey = digest(sorted(inst.payload))
    for rnd in (0, 1):
        r = ctx.call("gd.open", inst.platform, root)
        ctx.check_mon(r, inst.bytes, residual=False)
        if not r.ok:
            ctx.violation("lookup", dict(sub="open_failed"), dict(outcome=r.outcome), files=[root])
            return
        h = r.value["handle"]
        got_repos = [x["name"] for x in r.value["repos"]]
        if got_repos != ["ffxiv"] + ["ex%d" % e for e in inst.exps]:
            ctx.violation("lookup", dict(sub="repositories"), dict(got=got_repos, expected=inst.exps), files=[root])
        order = list(hist)
        if rnd == 1:
            rng.shuffle(order)
        for kind, path, cls in order:
            rec = ctx.call("gd." + kind, h, path, *(["-"] if kind == "extract" else []), input_bytes=inst.bytes)
            ctx.check_mon(rec, inst.bytes, residual=False, files=[root])
            if rec.outcome not in ("ok", "none"):
                continue
            ans = (rec.outcome, rec.value if kind != "extract" else (rec.value or {}).get("hex"))
            if rnd == 0:
                present, locs, ecls = expected(inst, path)
                nontrivial = bool(locs) or cls.startswith("near") or cls == "case-variant"
                classes = ["q:" + kind, "cls:" + cls, "platform:" + inst.platform, "expect:" + ("lenient" if present is None else "present" if present else "absent")]
                for (e, c, ch, d, o) in list(locs)[:1]:
                    if o >= (1 << 32) - 4096:
                        classes.append("offset:>=4GiB")
                    classes += ["repo:" + ("base" if e == 0 else "expansion"), "cat:" + c, "chunk:%d" % ch, "dat:%d" % d]
                ctx.case(digest(ikey, kind, path), nontrivial, classes,
                         sample=dict(query=kind, path=path, answer=str(ans)[:80], expected_locations=sorted(locs)[:2]) if locs else None)
                judge(ctx, inst, kind, path, cls, ans, present, locs, root)
                prev = answers.setdefault((kind, path), ans)
                if prev != ans:
                    ctx.violation("lookup", dict(sub="history_dependence", q=kind), dict(path=path, first=str(prev)[:200], later=str(ans)[:200]), files=[root])
            else:
                prev = answers.get((kind, path))
                ctx.stats.evaluations += 1
                ctx.stats.classes["replay-other-order"] += 1
                if prev is not None and prev != ans:
                    ctx.violation("lookup", dict(sub="history_dependence", q=kind), dict(path=path, first_handle=str(prev)[:200], fresh_handle_other_order=str(ans)[:200]), files=[root])
        ctx.call("drop", h)


def judge(ctx, inst, kind, path, cls, ans, present, locs, root):
    oc, val = ans
    sig = lambda sub: dict(sub=sub, q=kind, cls=cls.split(":")[0] if not cls.startswith("near") else cls)
    det = lambda **k: dict(path=path, answer=str(ans)[:300], expected_locations=sorted(locs)[:4], platform=inst.platform, exps=inst.exps, **k)
    said_present = (oc == "ok" and val is not False) if kind == "exists" else oc == "ok"
    if kind == "exists" and oc == "ok":
        said_present = bool(val)
    if present is None:
        # named repository not installed: absent, or looked up in the base repository
        if said_present and not locs:
            ctx.violation("lookup", sig("present_but_not_stored"), det(), files=[root])
        else:
            ctx.note("repository-not-installed: answered %s" % ("present(base)" if said_present else "absent"))
        return
    if present and not said_present:
        ctx.violation("lookup", sig("stored_but_absent"), det(), files=[root])
        return
    if not present and said_present:
        ctx.violation("lookup", sig("present_but_not_stored"), det(), files=[root])
        return
    if not present:
        return
    if kind == "find_offset":
        if val not in {o for (_, _, _, _, o) in locs}:
            ctx.violation("lookup", sig("wrong_offset"), det(), files=[root])
    elif kind == "extract":
        pay = {inst.payload[l].hex() for l in locs}
        if val not in pay:
            try:
                txt = bytes.fromhex(val or "").decode("latin1")
            except ValueError:
                txt = "?"
            ctx.violation("lookup", sig("wrong_location_read"), det(read_payload=txt[:100]), files=[root])
