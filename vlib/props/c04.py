"""C04 - a created patch turns the old tree into the new tree.

Monitor: conservation monitor on W = copy(A) after apply(create(A, B)) (files(W) == files(B) on
non-empty files) + immutability monitor on A and B (snapshots before/after create; thorough:
syscall monitor showing no write-open / unlink under A or B)."""
import os, re, shutil, subprocess, zlib
from .. import text
from ..core import digest, build, REPO
from ..fmt import zipatch as zp

LEVEL = "exploration"
RULE = ("random pairs of trees (ASCII relative paths, nesting depth 0..4, up to 30 files) with per-file overlap classes only-A / only-B / both-same / both-changed-same-size / "
        "both-changed-other-size, sizes 1 B..300 KiB incl. 127/128/129, 143/144, 31999..32001; history: snapshot A,B -> create(A,B) -> snapshot A,B (unchanged) -> copy A to W -> "
        "apply(W, patch stored outside W) -> snapshot W == B on non-empty files. non-trivial = pair with >= 1 only-A and >= 1 both-changed file; distinct = digest of both trees")
ASSUMPTIONS = ["empty files and left-over empty directories are not constrained (property: 'exactly B's non-empty files')"]

SIZES = [1, 2, 127, 128, 129, 143, 144, 145, 1000, 31999, 32000, 32001, 65536]


def plan(tier):
    if tier == "quick":
        return [("debug", 16, dict(n=40, maxsize=120 << 10, strace=0)), ("release", 4, dict(n=20, maxsize=120 << 10, strace=0))]
    return [("debug", 16, dict(n=300, maxsize=300 << 10, strace=6)), ("release", 8, dict(n=150, maxsize=300 << 10, strace=0)), ("asan", 4, dict(n=25, maxsize=64 << 10, strace=0))]


ODD_NAMES = ["notes..txt", "v1..2", "a..b", "...x", "x...", ".hidden", "..data", "data..", "name with space", " lead", "UPPER.BIN", "data", "data-old", "data.old", "data_old",
             "d.old", "x~", "#hash", "a+b", "[br]", "(p)", "semi;colon", "quote'", "amp&", "eq=", "at@", "comma,", "percent%41", "dollar$HOME", "back`tick", "caret^", "excl!", "tab\tname",
             "0", "-dash", "--", "con", "nul", "x" * 200]


CRC32_POLY_PATTERN = bytes.fromhex("410671db01")      # the generator polynomial x^32 + ... + 1 as message bits (reflected CRC-32)

# file name extensions: the common ones, and every short word the tree under test spells out in its patching code (an extension that
# is treated specially can only be seen by a file that carries it)
EXTENSIONS = ["patch", "tmp", "bak", "old", "log", "ver", "bck", "dat", "dat0", "index", "index2", "exe", "dll", "cfg", "ini", "txt", "var", "bk2", "lock", "part", "zip", "gz"]


def extensions():
    words = [w.strip(".") for w in text.tree_literals(REPO, ["patch.rs", "common.rs", "bootdata.rs", "gamedata.rs"])[1]]
    return EXTENSIONS + sorted({w for w in words if 1 <= len(w) <= 10 and w.replace("_", "").isalnum()})


def rname(rng):
    if rng.random() < 0.12:
        stem = "".join(rng.choice("abcdefghijklmnopqrstuvwxyz0123456789_") for _ in range(rng.randint(1, 8)))
        e = rng.choice(extensions())
        return stem + "." + (e if rng.random() < 0.8 else e.upper())
    if rng.random() < 0.15:
        return rng.choice(ODD_NAMES)
    return "".join(rng.choice("abcdefghijklmnopqrstuvwxyzABC0123456789_-.") for _ in range(rng.randint(1, 12))).strip(".") or "f"


def rpath(rng, used):
    while True:
        depth = rng.choice([0, 0, 1, 2, 3, 4])
        parts = [rng.choice(["sqpack", "boot", "game", "d%d" % rng.randrange(3), rname(rng)]) for _ in range(depth)] + [rname(rng)]
        p = "/".join(parts)
        # a path may not be a prefix directory of another file and vice versa
        if any(u == p or u.startswith(p + "/") or p.startswith(u + "/") for u in used):
            continue
        used.add(p)
        return p


def rdata(rng, maxsize):
    n = rng.choice(SIZES) if rng.random() < 0.5 else rng.randint(1, maxsize if rng.random() < 0.2 else 5000)
    return rng.randbytes(n) if rng.random() < 0.7 else bytes([rng.randrange(256)]) * n


def shard(ctx):
    rng, P = ctx.rng, ctx.params
    for i in range(P["n"]):
        one(ctx, rng, P, i < P["strace"])


def one(ctx, rng, P, use_strace):
    used = set()
    A, B = {}, {}
    cls = {}
    for _ in range(rng.choice([1, 2, 4, 8, 15, 30])):
        p = rpath(rng, used)
        k = rng.choice(["only-A", "only-B", "both-same", "both-changed-same-size", "both-changed-other-size"])
        cls[p] = k
        d = rdata(rng, P["maxsize"])
        if k == "only-A":
            A[p] = d
        elif k == "only-B":
            B[p] = d
        elif k == "both-same":
            A[p] = d; B[p] = d
        elif k == "both-changed-same-size":
            A[p] = d
            nd = bytearray(d)
            how = rng.choice(["one-byte", "one-byte", "first-byte", "last-byte", "same-crc32", "same-crc32", "same-bytes-other-order", "one-bit"])
            if how == "same-crc32" and len(nd) >= 5:
                # XOR-ing a multiple of the CRC-32 generator polynomial into a message leaves length and CRC-32 unchanged (checked against
                # zlib below): a comparison by length + checksum takes such a pair for unchanged
                for _ in range(rng.choice([1, 1, 3])):
                    j = rng.randrange(len(nd) - 4)
                    for t, x in enumerate(CRC32_POLY_PATTERN):
                        nd[j + t] ^= x
                if bytes(nd) == d or zlib.crc32(bytes(nd)) != zlib.crc32(d):
                    nd = bytearray(d); nd[0] ^= 1; how = "one-bit"
            elif how == "same-bytes-other-order" and len(set(nd)) >= 2:
                i1 = rng.randrange(len(nd))
                i2 = rng.choice([i for i in range(len(nd)) if nd[i] != nd[i1]])
                nd[i1], nd[i2] = nd[i2], nd[i1]          # same length, byte sum, XOR and multiset
            elif how == "first-byte":
                nd[0] ^= rng.choice([1, 0x80, 0xFF])
            elif how == "last-byte":
                nd[-1] ^= rng.choice([1, 0x80, 0xFF])
            elif how == "one-bit":
                nd[rng.randrange(len(nd))] ^= 1 << rng.randrange(8)
            else:
                j = rng.randrange(len(nd)); nd[j] ^= 0xFF
            B[p] = bytes(nd)
            ctx.stats.classes["both-changed-same-size:" + how] += 1
        else:
            A[p] = d
            B[p] = rdata(rng, P["maxsize"]) + b"!"
            if len(B[p]) == len(A[p]):
                B[p] += b"!"
    if rng.random() < 0.3:
        # sibling names that continue a directory name with a byte below / above '/' (0x2F): orders by raw bytes and by path
        # components disagree on them ("data/x" vs "data-old/x", "data.old", "data0")
        stem = rng.choice(["data", "d", rname(rng)])
        top = rng.choice(["", "game/", "sqpack/ffxiv/"])
        for sib in rng.sample([stem, stem + "-old", stem + ".old", stem + "0", stem + " ", stem + "_", stem + "+x", stem.upper()], rng.randint(2, 5)):
            for leaf in rng.sample(["x", "a.bin", "z/deep.dat", stem], rng.randint(1, 2)):
                p = top + sib + "/" + leaf
                if any(u == p or u.startswith(p + "/") or p.startswith(u + "/") for u in used):
                    continue
                used.add(p)
                k = rng.choice(["both-same", "both-changed-other-size", "only-A", "only-B"])
                cls[p] = k
                d = rdata(rng, 3000)
                if k != "only-B":
                    A[p] = d
                if k == "both-same":
                    B[p] = d
                elif k in ("both-changed-other-size", "only-B"):
                    B[p] = rdata(rng, 3000) + b"!!"
        ctx.stats.classes["tree:sibling-names-around-slash"] += 1
    if rng.random() < 0.3:
        # relative paths longer than the 260 characters some platforms stop at (every component stays below 255)
        for _ in range(rng.randint(1, 2)):
            p = "/".join(["L" + "".join(rng.choice("abcdefghij0123456789_") for _ in range(rng.choice([59, 100, 200]))) for _ in range(rng.choice([2, 3, 4]))] + ["n" * rng.choice([1, 120, 250])])
            if len(p) < 261 or any(u == p or u.startswith(p + "/") or p.startswith(u + "/") for u in used):
                continue
            used.add(p)
            k = rng.choice(["only-A", "only-B", "both-changed-other-size"])
            cls[p] = k
            d = rdata(rng, 2000)
            if k != "only-B":
                A[p] = d
            if k != "only-A":
                B[p] = rdata(rng, 2000) + b"#"
        ctx.stats.classes["tree:relative-path-longer-than-260"] += 1
    if rng.random() < 0.25:
        # the same file name in two folders whose contents change places between A and B (and a third copy that stays)
        nm = rname(rng)
        d1, d2 = rdata(rng, 3000), rdata(rng, 3000) + b"?"
        ps = []
        for folder in rng.sample(["sw1", "sw2/deep", "game/sw3", "sqpack/ffxiv"], 3):
            p = folder + "/" + nm
            if any(u == p or u.startswith(p + "/") or p.startswith(u + "/") for u in used):
                break
            used.add(p); ps.append(p)
        if len(ps) == 3:
            A[ps[0]], B[ps[0]] = d1, d2
            A[ps[1]], B[ps[1]] = d2, d1
            A[ps[2]], B[ps[2]] = d1, d1
            cls[ps[0]] = cls[ps[1]] = "both-changed-other-size"; cls[ps[2]] = "both-same"
            ctx.stats.classes["tree:same-name-contents-swapped"] += 1
    if rng.random() < 0.3 and (A or B):
        # a file next to another one whose name is that name plus a suffix an implementation might use for scratch files
        for base in rng.sample(sorted(set(A) | set(B)), min(3, len(set(A) | set(B)))):
            p = base + rng.choice([".tmp", ".tmp", ".bak", ".new", ".part", "~", ".old"])
            if any(u == p or u.startswith(p + "/") or p.startswith(u + "/") for u in used):
                continue
            used.add(p)
            cls[p] = rng.choice(["both-same", "only-B", "both-same"])
            d = rdata(rng, 2000)
            B[p] = d
            if cls[p] == "both-same":
                A[p] = d
        ctx.stats.classes["tree:scratch-suffix-siblings"] += 1
    base = ctx.path("pair")
    shutil.rmtree(base, ignore_errors=True)
    ra, rb, rw = (os.path.join(base, x) for x in ("A", "B", "W"))
    os.makedirs(ra); os.makedirs(rb)
    zp.write_tree(ra, A); zp.write_tree(rb, B)
    if rng.random() < 0.5:
        # every file of both trees carries the same modification time (an installer that stamps its files; a copy that preserves
        # times): "same size and same time" says nothing about the contents
        stamp = rng.choice([0, 1_000_000_000, 1_700_000_000])
        for root_, tree in ((ra, A), (rb, B)):
            for rel in tree:
                os.utime(os.path.join(root_, rel), (stamp, stamp))
        ctx.stats.classes["tree:equal-modification-times"] += 1
    kinds = set(cls.values())
    nontriv = "only-A" in kinds and any(k.startswith("both-changed") for k in kinds)
    ctx.case(digest(sorted(A.items()), sorted(B.items())), nontriv, ["files:%s" % bucket(len(cls))] + ["has:" + k for k in sorted(kinds)],
             sample=dict(files={p: (k, len(A.get(p, b"")), len(B.get(p, b""))) for p, k in list(cls.items())[:5]}))
    total = sum(map(len, A.values())) + sum(map(len, B.values()))
    snapA, snapB = zp.snapshot(ra), zp.snapshot(rb)
    pf = os.path.join(base, "created.patch")
    # the directory arguments are given with or without a trailing slash
    slash = rng.choice(["", "", "/"])
    arg_a, arg_b = ra + slash, rb + rng.choice(["", "/"]) if slash else rb
    form = "trailing-slash" if slash else "plain"
    if rng.random() < 0.25:
        # the same directories spelled in a non-canonical way (a "." or ".." component, a doubled separator)
        def respell(d):
            parent, leaf = os.path.split(d)
            return rng.choice([parent + "/./" + leaf, parent + "/" + leaf + "/../" + leaf, parent + "//" + leaf, os.path.join(parent, "..", os.path.basename(parent), leaf)])
        arg_a, arg_b = respell(ra), (respell(rb) if rng.random() < 0.5 else rb)
        form = "non-canonical"
    ctx.stats.classes["dir-arg:%s" % form] += 1
    if use_strace and shutil.which("strace"):
        log = ctx.path("strace.log")
        p = subprocess.run(["strace", "-f", "-y", "-o", log, "-e", "trace=openat,open,creat,unlink,unlinkat,mkdir,mkdirat,rename,renameat,renameat2,ftruncate,truncate,rmdir",
                            build(ctx.variant), "--once", "zp.create", arg_a, arg_b, pf], stdout=subprocess.PIPE, stderr=subprocess.PIPE, text=True, timeout=120, env=dict(os.environ, VERIF_NO_WARM="1"))
        ok = '"outcome":"ok"' in p.stdout
        bad = []
        n = 0
        for line in open(log, errors="replace"):
            m = re.search(r'(openat|open|creat|unlink|unlinkat|mkdir|mkdirat|rename\w*|truncate|rmdir)\((?:(AT_FDCWD|\d+)(?:<([^>]*)>)?, )?"([^"]*)"(.*)', line)
            if not m:
                continue
            call, dfd, dpath, path, rest = m.groups()
            if dfd and dfd != "AT_FDCWD" and dpath and not path.startswith("/"):
                path = os.path.join(dpath, path)
            if call in ("openat", "open") and not re.search(r"O_WRONLY|O_RDWR|O_CREAT|O_TRUNC", rest):
                continue
            n += 1
            ap = os.path.abspath(path)
            if ap.startswith(ra + "/") or ap.startswith(rb + "/") or ap in (ra, rb):
                bad.append((call, path))
        ctx.stats.monitor["strace_events"] += n
        ctx.stats.classes["strace-run"] += 1
        if bad:
            ctx.violation("syscall", dict(sub="create_writes_into_input_tree"), dict(events=bad[:6]), files=[ra, rb])
        if not ok:
            ctx.violation("create", dict(sub="create_failed"), dict(stdout=p.stdout[-400:]), files=[ra, rb])
            return
    else:
        rec = ctx.call("zp.create", arg_a, arg_b, pf, input_bytes=total)
        ctx.check_mon(rec, total, files=[ra, rb])
        if not rec.ok:
            if rec.outcome == "none":
                ctx.violation("create", dict(sub="create_failed"), {}, files=[ra, rb])
            return
    if zp.snapshot(ra) != snapA or zp.snapshot(rb) != snapB:
        ctx.violation("create", dict(sub="create_modified_inputs"), dict(a_changed=zp.snapshot(ra) != snapA, b_changed=zp.snapshot(rb) != snapB), files=[ra, rb])
    shutil.copytree(ra, rw)
    psize = os.path.getsize(pf)
    r2 = ctx.call("zp.apply", rw + rng.choice(["", "", "/"]), pf, input_bytes=psize)
    ctx.check_mon(r2, psize + total, files=[ra, rb, pf])
    if r2.outcome.startswith("err"):
        ctx.violation("create", dict(sub="created_patch_does_not_apply", err=r2.outcome), {}, files=[ra, rb, pf])
    elif r2.ok:
        got, _ = zp.snapshot(rw)
        gotn = {p: d for p, d in got.items() if d}
        expn = {p: d for p, d in B.items() if d}
        if gotn != expn:
            bad = {}
            for p in set(gotn) | set(expn):
                if gotn.get(p) != expn.get(p):
                    bad[p] = (cls.get(p, "?"), "missing" if p not in gotn else "unexpected" if p not in expn else "content")
            kinds_bad = sorted({"%s:%s" % v for v in bad.values()})
            ctx.violation("tree", dict(sub="result_differs_from_B", what="+".join(kinds_bad)[:120]), dict(bad={k: v for k, v in list(bad.items())[:8]}), files=[ra, rb, pf])
    if zp.snapshot(ra) != snapA or zp.snapshot(rb) != snapB:
        ctx.violation("create", dict(sub="apply_modified_inputs"), {}, files=[ra, rb])
    shutil.rmtree(base, ignore_errors=True)


def bucket(n):
    for b in (1, 2, 4, 8, 15):
        if n <= b:
            return "<=%d" % b
    return ">15"
