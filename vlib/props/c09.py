"""C09 - saved character and gear-set files keep the documented layout.

Monitor: cross-codec monitor in both directions: files built by the independent Python codec are
parsed by the library; files written by the library are decoded by the Python codec. The Python
codec is anchored on the retail-made sample files (checked in every shard before use)."""
import os, struct
from ..core import digest, REPO
from ..fmt import userfiles as uf
from .. import text

LEVEL = "exploration"
RULE = ("character presets: every race x tribe x gender code, each byte field swept through 0..255, timestamps, versions, comments of 0..163 bytes "
        "(ASCII and multi-byte UTF-8); gear sets: random subsets of the 100 sets and 14 slots, names to 46 bytes, item/glamour ids across the 32-bit "
        "range incl. ids sharing bits with 1 000 000, optional facewear. Directions: Python-built file -> from_existing equals planted values and "
        "write_to_buffer reproduces the file byte for byte; library-written file (values set through pub fields) -> Python decode equals the values, "
        "checksum equals Python's, library re-parse equals the values. non-trivial = preset with a non-empty comment or non-default field / table "
        "with >= 1 set; distinct = digest of the planted values")
ASSUMPTIONS = ["byte offsets of the preset layout as documented (anchored on 4 retail-made samples whose stored checksum the Python codec reproduces)",
               "item-id marker is additive (stored = id + 1 000 000), the only reading consistent with the sample gear-set file and the repository's tests"]


def plan(tier):
    if tier == "quick":
        return [("debug", 16, dict(nchar=100, ngs=30)), ("release", 2, dict(nchar=100, ngs=20))]
    return [("debug", 16, dict(nchar=6000, ngs=700)), ("release", 4, dict(nchar=1500, ngs=200))]


def anchor(ctx):
    """the independent codec must reproduce the stored checksum of the retail-made samples"""
    for n in ["arr", "heavensward", "stormblood", "shadowbringers"]:
        b = open(os.path.join(REPO, "resources/tests/chardat/%s.dat" % n), "rb").read()
        d = uf.char_parse(b)
        if not d["checksum_ok"]:
            raise RuntimeError("python chardat codec does not reproduce sample checksum of " + n)
    g = uf.gs_parse(open(os.path.join(REPO, "resources/tests/gearsets/simple.dat"), "rb").read())
    s0 = g["sets"][0]
    assert s0["name"] == b"White Mage" and s0["raw_slots"][0][0] - uf.GS_MARK == 5269 and s0["raw_slots"][3][0] - uf.GS_MARK == 8395913


def shard(ctx):
    anchor(ctx)
    rng, P = ctx.rng, ctx.params
    if ctx.index == 0:
        samples(ctx)
    # systematic sweeps are spread over the shards
    sweep = []
    for r in range(1, 9):
        for t in range(1, 17):
            for g in (0, 1):
                sweep.append(dict(race=r, tribe=t, gender=g))
    for f in uf.CHAR_FIELDS:
        if f in ("race", "tribe", "gender"):
            continue
        for v in range(256):
            if f == "enable_highlights" and v > 1:
                continue
            sweep.append({f: v})
    for n in range(164):
        sweep.append(dict(_comment_len=n))
    mine = [s for i, s in enumerate(sweep) if i % ctx.nshards == ctx.index]
    if ctx.tier == "quick":
        mine = mine[:: 4] + mine[1:: 16]
    for s in mine:
        char_case(ctx, rng, s)
    # every scalar value of the BMP (and an astral sample) once per run in a comment and once in a gear-set name: a reader or writer
    # that treats one character, one block or "text that looks damaged" specially is only seen by text that contains it
    stride = 4 if P.get("small") else 1
    cps = text.sweep_code_points(ctx.index, ctx.nshards, stride=stride)
    for t in text.pack(cps, 163):
        char_case(ctx, rng, dict(_comment=t.encode("utf-8")))
    names = [t.encode("utf-8") for t in text.pack(cps, 46)]
    for i in range(0, len(names), 100):
        gs_case(ctx, rng, names=names[i:i + 100])
    for c in cps[:: max(1, len(cps) // 40)]:
        ctx.stats.classes["text-sweep:" + text.block_of(c)] += 1
    for _ in range(P["nchar"]):
        char_case(ctx, rng, None)
    for _ in range(P["ngs"]):
        gs_case(ctx, rng)


def samples(ctx):
    for n in ["arr", "heavensward", "stormblood", "shadowbringers"]:
        p = os.path.join(REPO, "resources/tests/chardat/%s.dat" % n)
        b = open(p, "rb").read()
        d = uf.char_parse(b)
        rec = ctx.call("chardat.parse", p, input_bytes=len(b))
        ctx.check_mon(rec, len(b))
        ctx.case("sample:" + n, True, ["chardat-sample"])
        if rec.ok:
            cmp_char(ctx, "sample_" + n, rec.value["data"], d, [p])
            if not rec.value["rewrite_eq"]:
                ctx.violation("codec", dict(sub="chardat_rewrite_sample"), dict(sample=n), files=[p])
        else:
            ctx.violation("codec", dict(sub="chardat_parse_failed"), dict(sample=n, outcome=rec.outcome), files=[p])


def rand_comment(rng, n=None):
    if n is None:
        n = rng.choice([0, 0, 1, 5, 40, 162, 163, rng.randint(0, 163)])
    if rng.random() < 0.25:
        out = ""
        while len(out.encode("utf-8")) < n:
            c = rng.choice("aZ9 !é日ñ€")
            if len((out + c).encode("utf-8")) > n:
                c = "x"
            out += c
        return out.encode("utf-8")[:n]
    return bytes(rng.choice(b"abcdefghijklmnopqrstuvwxyzABCDEFGHIJKLMNOPQRSTUVWXYZ0123456789 .,!?-_") for _ in range(n))


def cmp_char(ctx, sub, got, exp, files):
    bad = {}
    for f in uf.CHAR_FIELDS + ["version", "timestamp"]:
        e = exp[f]
        if f == "enable_highlights":
            e = 1 if e == 1 else 0
        if got.get(f) != e:
            bad[f] = (got.get(f), e)
    if got.get("comment", "").encode("utf-8") != exp["comment"]:
        bad["comment"] = (got.get("comment"), exp["comment"])
    if bad:
        ctx.violation("codec", dict(sub="chardat_" + sub, fields=",".join(sorted(bad))), dict(mismatch={k: repr(v) for k, v in bad.items()}), files=files)
        return False
    return True


def char_case(ctx, rng, forced):
    vals = {f: rng.randrange(256) for f in uf.CHAR_FIELDS}
    vals["race"] = rng.randint(1, 8); vals["tribe"] = rng.randint(1, 16); vals["gender"] = rng.randint(0, 1)
    vals["enable_highlights"] = rng.randint(0, 1)
    comment = rand_comment(rng)
    cls = "random"
    if forced:
        for k, v in forced.items():
            if k == "_comment_len":
                comment = rand_comment(rng, v); cls = "comment-sweep"
            elif k == "_comment":
                comment = v; cls = "comment-code-point-sweep"
            else:
                vals[k] = v; cls = "field-sweep:" + ("race" if k in ("race", "tribe", "gender") else k)
    version = rng.choice([1, 2, 3, 4, 5, 6, 7, rng.getrandbits(32)])
    ts = rng.choice([0, 1, 1700000000, 2 ** 32 - 1, rng.getrandbits(32)])
    exp = dict(vals, version=version, timestamp=ts, comment=comment)
    key = digest(sorted(exp.items()))
    ctx.case(key, True, ["chardat", "chardat-" + cls.split(":")[0], "comment-len:%s" % bucket(len(comment))],
             sample=dict(race=vals["race"], tribe=vals["tribe"], gender=vals["gender"], comment_len=len(comment), version=version))
    # direction 1: python-built -> library
    b = uf.char_build(vals, version, ts, comment)
    f = ctx.write("c.dat", b)
    rec = ctx.call("chardat.parse", f, input_bytes=len(b))
    ctx.check_mon(rec, len(b), files=[f])
    if rec.ok:
        cmp_char(ctx, "parse", rec.value["data"], exp, [f])
        if not rec.value["rewrite_eq"]:
            ctx.violation("codec", dict(sub="chardat_rewrite_canonical"), dict(got=rec.value.get("rewrite_hex", "")[:500], expected=b.hex()[:500]), files=[f])
    elif rec.outcome == "none":
        ctx.violation("codec", dict(sub="chardat_parse_failed"), dict(values=exp.__repr__()[:400]), files=[f])
    # direction 2: library-written -> python
    spec = "".join("%s %d\n" % (k, v) for k, v in vals.items()) + "version %d\ntimestamp %d\ncomment %s\n" % (version, ts, comment.hex() or "-")
    if not comment:
        spec = spec.replace("comment -\n", "")
    sf = ctx.write("c.spec", spec.encode())
    out = ctx.path("c.out")
    r2 = ctx.call("chardat.write", sf, out)
    ctx.check_mon(r2, 4096, files=[sf])
    if r2.ok:
        w = ctx.read("c.out")
        try:
            d = uf.char_parse(w)
        except ValueError as e:
            ctx.violation("codec", dict(sub="chardat_written_layout"), dict(error=str(e)), files=[sf])
            return
        bad = {f: (d[f], exp[f]) for f in uf.CHAR_FIELDS + ["version", "timestamp", "comment"] if d[f] != exp[f]}
        if bad:
            ctx.violation("codec", dict(sub="chardat_written_fields", fields=",".join(sorted(bad))), dict(mismatch={k: repr(v) for k, v in bad.items()}), files=[sf])
        if not d["checksum_ok"]:
            ctx.violation("codec", dict(sub="chardat_written_checksum"), dict(stored=d["checksum"], expected=uf.char_checksum(w)), files=[sf])
        if d["pad_c"] != b"\0" * 4 or d["pad_2b"] != 0 or not d["comment_tail_zero"]:
            ctx.violation("codec", dict(sub="chardat_written_padding"), dict(pad_c=d["pad_c"].hex(), pad_2b=d["pad_2b"]), files=[sf])
        if w != b:
            ctx.violation("codec", dict(sub="chardat_written_bytes"), dict(got=w.hex()[:500], expected=b.hex()[:500]), files=[sf])
        if r2.value.get("reparsed") is None:
            ctx.violation("codec", dict(sub="chardat_written_unparsable"), {}, files=[sf])
        else:
            cmp_char(ctx, "reparse", r2.value["reparsed"], exp, [sf])
    elif r2.outcome in ("none", "err:write"):
        ctx.violation("codec", dict(sub="chardat_write_failed"), dict(outcome=r2.outcome), files=[sf])


def bucket(n):
    for b in (0, 1, 16, 64, 162, 163):
        if n <= b:
            return "<=%d" % b
    return ">163"


ID_POOL = [1, 5269, 8395913, 64, 512, 16384, 65536, 999999, 1000000, 1000001, 1048576, 1000064, 2 ** 31, 2 ** 32 - 1 - 1000000, 0x000F4240, 0x00F00000,
           2 ** 32 - 1000000, 2 ** 32 - 999999, 2 ** 32 - 2, 2 ** 32 - 1, 2 ** 31 - 1, 2 ** 32 - 1000001]


def id_class(i):
    if i >= 2 ** 32 - 1000000:
        return "id-plus-marker-wraps-32-bits"
    return "id-overlaps-marker-bits" if (i & 1000000) else "id-disjoint-from-marker-bits"


def gs_case(ctx, rng, names=None):
    TEMPLATE = os.path.join(REPO, "resources/tests/gearsets/simple.dat")
    sets = {}
    nsets = rng.choice([0, 1, 1, 2, 7, 30, 100]) if names is None else len(names)
    opaque = rng.random() < 0.5
    for pos in rng.sample(range(100), nsets):
        n = rng.choice([1, 5, 10, 45, 46, rng.randint(1, 46)])
        if names is not None:
            name = names[len(sets)]
        elif rng.random() < 0.2:
            name = ("é日ñ" * 20).encode("utf-8")[:n]
            name = name.decode("utf-8", "ignore").encode("utf-8") or b"n"
        else:
            name = bytes(rng.choice(b"abcdefghijklmnopqrstuvwxyzABCDEFGHIJ 0123456789'-") for _ in range(n))
        slots = {}
        for s in rng.sample(range(14), rng.choice([0, 1, 2, 5, 14])):
            iid = rng.choice(ID_POOL) if rng.random() < 0.6 else rng.randrange(1, 2 ** 32)
            gl = rng.choice([0, 0, 2453, 2 ** 32 - 1, rng.getrandbits(32) or 1])
            # the fields after the two ids (dyes etc.) are opaque to the API but belong to a canonical file: an occupied slot carries them
            unk = tuple(rng.choice([0, 1, 0xFF, rng.getrandbits(32)]) for _ in range(5)) if opaque else (0, 0, 0, 0, 0)
            slots[s] = (iid, gl, unk)
        sets[pos] = dict(index=rng.choice([pos, 0, 255, rng.randrange(256)]), name=name, unk=rng.getrandbits(64) if opaque else 0, slots=slots,
                         facewear=rng.choice([0, 0, 12345, 2 ** 32 - 1, rng.getrandbits(32)]))
    current = rng.randrange(256)
    hdr_unk = (rng.randrange(256), rng.getrandbits(16)) if opaque else (0, 0)
    exp = norm_sets(sets)
    key = digest(repr(sorted(exp.items())), current)
    idcls = sorted({id_class(v[0]) for s in sets.values() for v in s["slots"].values()})
    key = digest(key, opaque and repr(sorted((p, s["unk"], sorted(s["slots"].items())) for p, s in sets.items())), hdr_unk)
    ctx.case(key, nsets >= 1, ["gearsets", "gs-sets:%s" % nsets] + (["gs-names:code-point-sweep"] if names is not None else []) + [ "gs-opaque-fields:%s" % ("nonzero" if opaque else "zero")] + idcls, sample=dict(sets=nsets, example={k: v for k, v in list(exp.items())[:1]}))
    # direction 1: python-built canonical file -> library
    b = uf.gs_build(sets, current=current, unknown1=hdr_unk[0], unknown3=hdr_unk[1])
    f = ctx.write("g.dat", b)
    rec = ctx.call("gearsets.parse", f, input_bytes=len(b))
    ctx.check_mon(rec, len(b), files=[f])
    if rec.ok:
        cmp_gs(ctx, "parse", rec.value["data"], exp, current, [f])
        if rec.value["rewrite_eq"] is not True:
            ctx.violation("codec", dict(sub="gearsets_rewrite_canonical", ids="+".join(idcls), opaque=opaque), {}, files=[f])
    elif rec.outcome == "none":
        ctx.violation("codec", dict(sub="gearsets_parse_failed"), {}, files=[f])
    # direction 2: library-written -> python decode (opaque fields cannot be set through the API: the template's zeros are expected)
    if opaque:
        b = uf.gs_build({p: dict(s, unk=0, slots={k: (v[0], v[1], (0, 0, 0, 0, 0)) for k, v in s["slots"].items()}) for p, s in sets.items()}, current=current)
    spec = "current %d\n" % current
    for pos, s in sorted(sets.items()):
        spec += "set %d %d %s %d\n" % (pos, s["index"], s["name"].hex(), s["facewear"])
        for k, (iid, gl, _) in sorted(s["slots"].items()):
            spec += "slot %d %d %d %d\n" % (pos, k, iid, gl)
    sf = ctx.write("g.spec", spec.encode())
    out = ctx.path("g.out")
    # the public list may be shorter than 100 entries when it is written: the table in the file has 100 records all the same
    short = rng.choice([0, 1, 50, 99]) if rng.random() < 0.2 else None
    if short is not None:
        sets = {p: s for p, s in sets.items() if p < short}
        exp = norm_sets(sets)
        b = uf.gs_build({p: dict(s, unk=0, slots={k: (v[0], v[1], (0, 0, 0, 0, 0)) for k, v in s["slots"].items()}) for p, s in sets.items()}, current=current)
        ctx.stats.classes["gs-list-shorter-than-100"] += 1
    r2 = ctx.call("gearsets.write", TEMPLATE, sf, out, *([short] if short is not None else []), input_bytes=len(b))
    ctx.check_mon(r2, len(b), files=[sf])
    if r2.ok:
        w = ctx.read("g.out")
        try:
            d = uf.gs_parse(w)
        except ValueError as e:
            ctx.violation("codec", dict(sub="gearsets_written_layout"), dict(error=str(e), length=len(w)), files=[sf])
            return
        got = {}
        for pos, s in d["sets"].items():
            if s["name"]:
                slots = {}
                for k, v in s["raw_slots"].items():
                    iid = (v[0] - uf.GS_MARK) & 0xFFFFFFFF
                    if iid != 0:
                        slots[k] = (iid, v[1])
                got[pos] = (s["index"], s["name"], slots, s["facewear"])
        if got != exp or d["current"] != current:
            diff = {k: (got.get(k), exp.get(k)) for k in set(got) | set(exp) if got.get(k) != exp.get(k)}
            ctx.violation("codec", dict(sub="gearsets_written_fields", ids="+".join(idcls)), dict(diff=repr(diff)[:1500], current=(d["current"], current)), files=[sf])
        if d["max_size"] != uf.GS_BODY + 1 or d["content_size"] != uf.GS_BODY + 1 or d["pad"] != 0 or d["total_len"] != 17 + uf.GS_BODY:
            ctx.violation("codec", dict(sub="gearsets_written_header"), dict(header={k: d[k] for k in ("max_size", "content_size", "pad", "total_len")}), files=[sf])
        if r2.value.get("reparsed") is None:
            ctx.violation("codec", dict(sub="gearsets_written_unparsable"), {}, files=[sf])
        else:
            cmp_gs(ctx, "reparse", r2.value["reparsed"], exp, current, [sf], idcls)
        if w != b:
            ctx.violation("codec", dict(sub="gearsets_written_bytes", ids="+".join(idcls)), dict(first_diff=next((i for i in range(min(len(w), len(b))) if w[i] != b[i]), -1)), files=[sf])
    elif r2.outcome in ("none",):
        ctx.violation("codec", dict(sub="gearsets_write_failed"), {}, files=[sf])


def norm_sets(sets):
    return {pos: (s["index"], s["name"], {k: (v[0], v[1]) for k, v in s["slots"].items()}, s["facewear"]) for pos, s in sets.items()}


def cmp_gs(ctx, sub, got, exp, current, files, idcls=()):
    g = {}
    for s in got["sets"]:
        g[s["pos"]] = (s["index"], s["name"].encode("utf-8"), {x["slot"]: (x["id"], x["glamour"] or 0) for x in s["slots"]}, s["facewear"] or 0)
    if g != exp or got["current"] != current or got["count"] != 100:
        diff = {k: (g.get(k), exp.get(k)) for k in set(g) | set(exp) if g.get(k) != exp.get(k)}
        allids = sorted({id_class(v[0]) for e in exp.values() for v in e[2].values()})
        ctx.violation("codec", dict(sub="gearsets_" + sub, ids="+".join(allids)), dict(diff=repr(diff)[:1500], current=(got["current"], current)), files=files)
