"""C12 - path, shader-key and file hashes equal their standard definitions.

Monitor: reference-model monitor. Every string is hashed by the library (one batch command =
N observations) and by zlib.crc32 (independent implementation) plus a table-free bitwise CRC;
files are digested through FileInfo::new and compared with hashlib.sha1.
"""
import hashlib, os, re, zlib
from .. import text
from ..core import digest, REPO
from ..fmt import fiin, sqpack as sq

LEVEL = "exploration"
RULE = ("strings over all 128 ASCII code points, lengths 0..4096 (every length 0..300 once per shard, "
        "random longer ones), each hashed by the library and compared with zlib.crc32 and a bitwise CRC "
        "(partial path hash = JAMCRC of the lower-cased bytes, shader crc = reflected CRC-32 init 0, no xorout) "
        "plus case-insensitivity (hash(s)==hash(swapcase s)), strings that look like numbers / hex literals / format strings, and the hash as index files use it "
        "(40 paths with and without a folder part stored in generated .index / .index2 files, looked up under five spellings of their case, plus near misses); files of every length 0..300 and random lengths to "
        "4 MiB around the SHA-1 padding boundaries, plus lengths at which the bit count crosses a byte of the 64-bit length field (2^8, 2^16, 2^24 bits; thorough: 2^32 bits = 512 MiB), digested through FileInfo::new vs hashlib.sha1. "
        "non-trivial = string of length >= 1 / file of length >= 1; distinct = digest of the content")
ASSUMPTIONS = ["Python zlib.crc32 and hashlib.sha1 are correct independent implementations",
               "paths are ASCII (property domain); Unicode lower-casing is not exercised"]


def plan(tier):
    if tier == "quick":
        return [("debug", 16, dict(nstr=2500, nfiles=40, maxfile=1 << 20)), ("release", 2, dict(nstr=2500, nfiles=20, maxfile=1 << 20))]
    return [("debug", 16, dict(nstr=60000, nfiles=190, maxfile=4 << 20)),
            ("release", 4, dict(nstr=20000, nfiles=40, maxfile=4 << 20, huge=True)),
            ("miri", 8, dict(nstr=40, nfiles=4, maxfile=2000, small=True)), ("memcheck", 2, dict(nstr=400, nfiles=8, maxfile=40000, small=True))]


def bitcrc(data, init):
    c = init
    for b in data:
        c ^= b
        for _ in range(8):
            c = (c >> 1) ^ (0xEDB88320 if c & 1 else 0)
    return c


def gen_string(rng, i, small=False):
    if small:
        n = rng.choice([0, 1, 2, 3, 7, 8, 9, 15, 16, 17, 31, 32, 33, 63, 64, 65, 100, 255, 256, 257, rng.randint(0, 600)])
    elif i <= 300:
        n = i
    else:
        n = rng.choice([1, 2, 3, 5, 8, 16, 17, 31, 32, 33, 63, 64, 65, 100, 255, 256, 257, 1000, 4095, 4096, rng.randint(0, 4096), rng.randint(0, 200)])
    mode = rng.random()
    if mode < 0.4:
        # path-like
        alpha = "abcdefghijklmnopqrstuvwxyzABCDEFGHIJKLMNOPQRSTUVWXYZ0123456789_/.-"
        return "".join(rng.choice(alpha) for _ in range(n)).encode()
    if mode < 0.5:
        return bytes([rng.randrange(128)]) * n
    return bytes(rng.randrange(128) for _ in range(n))


def shard(ctx):
    rng, P = ctx.rng, ctx.params
    # ---- strings
    strs = [gen_string(rng, i, P.get("small")) for i in range(P["nstr"])]
    if ctx.index == 0:
        strs += [bytes([c]) for c in range(128)] + [bytes(range(128)), bytes(range(127, -1, -1))]
    # every string literal of the tree under test (a special case for one particular name can only be seen by asking for that name)
    if ctx.index == 1 % ctx.nshards or ctx.nshards == 1:
        lit = set()
        for r, ds, fs in os.walk(os.path.join(REPO, "src")):
            for fn in fs:
                if fn.endswith(".rs"):
                    try:
                        txt = open(os.path.join(r, fn), encoding="utf-8", errors="replace").read()
                    except OSError:
                        continue
                    for m in re.finditer(r'"((?:[^"\\\n]|\\.){1,200})"', txt):
                        t = m.group(1)
                        if "\\" not in t and all(32 <= ord(c) < 127 for c in t):
                            lit.add(t)
        strs += [t.encode() for t in sorted(lit)]
        ctx.stats.classes["literal-of-the-tree-under-test"] += len(lit)
    # strings that look like something else than a name (numbers, hex literals, format strings, escapes): they are hashed like any other
    strs += [x.encode() for x in ("0x1", "0x92531654", "0xDEADBEEF", "0X12", "0x", "0xg", "0x123456789", "1", "-1", "123456", "4294967295", "1e9", "0b101", "0o17", "#fff",
                                  "null", "true", "None", "nan", "%s", "%20", "{0}", "$1", "\\n", "a\\0b", " lead", "trail ", "g_Sampler", "g_SamplerNormal", "0x1 ", " 0x1")]
    # case variants
    extra = []
    for s in strs[::3]:
        extra.append(s.swapcase()); extra.append(s.upper())
    pairs = len(extra)
    allstr = strs + extra
    inp = ctx.write("hash.in", ("\n".join(s.hex() for s in allstr) + "\n").encode())
    outp = ctx.path("hash.out")
    rec = ctx.call("hash.batch", inp, outp, input_bytes=os.path.getsize(inp))
    ctx.check_mon(rec, os.path.getsize(inp), files=[inp])
    if rec.ok:
        lines = ctx.read("hash.out").decode().split("\n")
        got = {}
        for k, (s, l) in enumerate(zip(allstr, lines)):
            try:
                pj, px = map(int, l.split())
            except ValueError:
                ctx.inconclusive("unparsable hash line")
                continue
            lo = s.lower()
            ej = (zlib.crc32(lo) ^ 0xFFFFFFFF) & 0xFFFFFFFF
            ex = (zlib.crc32(s, 0xFFFFFFFF) ^ 0xFFFFFFFF) & 0xFFFFFFFF
            if len(s) <= 64 or k % 25 == 0:
                # table-free definition as a second witness (and a self-check of the oracle)
                assert ej == bitcrc(lo, 0xFFFFFFFF) and ex == bitcrc(s, 0)
            got[s] = pj
            ctx.case(digest(s), len(s) >= 1, ["len:%s" % bucket(len(s)), "str"], sample=dict(string_hex=s[:40].hex(), partial=pj, shader_crc=px) if k < 2 else None)
            if pj != ej:
                ctx.violation("hash", dict(sub="partial_hash"), dict(string_hex=s.hex()[:400], got=pj, expected=ej), files=[inp])
            if px != ex:
                ctx.violation("hash", dict(sub="shader_crc"), dict(string_hex=s.hex()[:400], got=px, expected=ex), files=[inp])
        # case-insensitivity, observed directly on library answers
        for s in strs[::3]:
            a = got.get(s)
            for v in (s.swapcase(), s.upper()):
                if got.get(v) != a:
                    ctx.violation("hash", dict(sub="case_insensitive"), dict(string_hex=s.hex()[:400], a=a, b=got.get(v)), files=[inp])
            ctx.stats.classes["case-pair"] += 1
    # the free hash functions called from several threads at once (any table or memo behind them is shared by construction)
    ctx.shared_between_threads(["hash %s" % x.hex() for x in strs[:40] if x and all(32 <= c < 127 for c in x)], "hash-functions", reps=30)
    if not P.get("small"):
        index_lookups(ctx, rng)
    # ---- SHA-1 through FileInfo::new
    lens = [n for n in range(301) if n % ctx.nshards == ctx.index]
    if P.get("small"):
        lens = lens[::6]        # interpreter stage: a thin slice of the length sweep
    edges = [55, 56, 63, 64, 119, 120]
    for _ in range(P["nfiles"]):
        base = rng.choice([0, 64, 128, 1 << 10, 1 << 12, 1 << 16, rng.randrange(0, P["maxfile"], 64)])
        lens.append(min(P["maxfile"], base + rng.choice(edges + [rng.randrange(64)])))
    # lengths whose bit count crosses each byte of the 64-bit length field in the padding (2^8, 2^16, 2^24 bits; every length byte non-zero)
    bitlen = [31, 32, 33, 8191, 8192, 8193, (1 << 21) - 1, 1 << 21, (1 << 21) + 1, (1 << 21) + 64 * rng.randrange(1, 64) + rng.randrange(64), 0x01234567 // rng.choice([1, 2, 4])]
    if not P.get("small"):
        lens += [n for i, n in enumerate(bitlen) if i % ctx.nshards == ctx.index]
    if P.get("huge") and ctx.index == 0:
        lens.append((1 << 29) + rng.randrange(1, 200))      # >= 2^32 bits
    if not P.get("small") and ctx.index == 3 % ctx.nshards:
        # lengths at and around the integer constants of the tree's hashing code (a piece or buffer size), and twice that
        consts = [c for c in text.tree_literals(REPO, ["fiin.rs", "sha1.rs"])[0] if 257 <= c <= (8 << 20)]
        for c in consts[:12]:
            lens += [c - 1, c, c + 1, 2 * c]
        ctx.stats.classes["sha1-length:constant-of-the-tree"] += 4 * len(consts[:12])
    # one call hashes many files: their order is shuffled so that long and short last blocks, and empty files, follow each other
    # in every order (a hasher object reused between the files of a call must start each file clean)
    lens = lens + [0, 0]
    rng.shuffle(lens)
    paths = []
    datas = []
    for i, n in enumerate(lens):
        if n > (8 << 20):
            blk = rng.randbytes(1 << 16)
            d = (blk * (n // len(blk) + 1))[:n]
        else:
            d = rng.randbytes(n) if rng.random() < 0.8 else bytes([rng.randrange(256)]) * n
        paths.append(ctx.write("f/file_%04d.bin" % i, d)); datas.append(d)
    out = ctx.path("out.fiin")
    tot = sum(map(len, datas))
    for lo in range(0, len(paths), 64):
        grp = paths[lo:lo + 64]; gd = datas[lo:lo + 64]
        gt = sum(map(len, gd))
        rec = ctx.call("fiin.new", out, *grp, input_bytes=gt)
        ctx.check_mon(rec, gt, files=grp[:4])
        if not rec.ok:
            if rec.outcome in ("none",) or rec.outcome.startswith("err"):
                ctx.violation("sha1", dict(sub="fiin_new_failed"), dict(outcome=rec.outcome))
            continue
        raw = ctx.read("out.fiin")
        try:
            unk, esz, ents = fiin.parse(raw)
        except ValueError as e:
            ctx.violation("sha1", dict(sub="fiin_layout"), dict(error=str(e)))
            continue
        if len(ents) != len(grp):
            ctx.violation("sha1", dict(sub="fiin_count"), dict(got=len(ents), expected=len(grp)))
            continue
        for p, d, e in zip(grp, gd, ents):
            exp = hashlib.sha1(d).digest()
            ctx.case(digest(d), len(d) >= 1, ["sha1-mod64:%d" % (len(d) % 64), "sha1-size:%s" % bucket(len(d))],
                     sample=dict(file_len=len(d), sha1=exp.hex()) if len(d) in (0, 55) else None)
            if e["digest"] != exp:
                ctx.violation("sha1", dict(sub="digest"), dict(length=len(d), got=e["digest"].hex(), expected=exp.hex()), files=[p])
    for p in paths:
        os.unlink(p)


def index_lookups(ctx, rng):
    """the path hash as index files use it: paths (with and without a folder part) stored in generated .index / .index2 files are found
    under every spelling of their letters' case, and only they"""
    alpha = "abcdefghijklmnopqrstuvwxyzABCDEFGHIJKLMNOPQRSTUVWXYZ0123456789_-."
    def nm(a, b):
        return "".join(rng.choice(alpha) for _ in range(rng.randint(a, b)))
    paths = set()
    while len(paths) < 40:
        k = rng.random()
        if k < 0.3:
            paths.add(nm(1, 12) + rng.choice([".exl", ".EXL", ".Dat", ""]))          # a file outside of any folder
        else:
            paths.add("/".join(nm(1, 8) for _ in range(rng.randint(1, 4))) + "/" + nm(1, 12))
    paths = sorted(paths)
    for kind in (1, 2):
        ents = []
        for i, p in enumerate(paths):
            lo = p.lower().encode()
            if kind == 1:
                h = sq.hash1(p) if "/" in p else (sq.jam(lo), sq.jam(b""))
            else:
                h = sq.jam(lo)
            ents.append((h, i % 8, 128 * (i + 1), False))
        rng.shuffle(ents)
        f = ctx.write("lookup.index%s" % ("" if kind == 1 else "2"), sq.index_file(kind, ents, 0, ndats=8))
        r = ctx.call("idx.open", f)
        if not r.ok:
            ctx.violation("hash", dict(sub="index_rejected", index=kind), dict(outcome=r.outcome), files=[f])
            continue
        h = r.value["handle"]
        stored_lower = {p.lower() for p in paths}
        for i, p in enumerate(paths):
            for q in {p, p.upper(), p.lower(), p.swapcase(), "".join(c.upper() if rng.random() < 0.5 else c.lower() for c in p)}:
                ro = ctx.call("idx.exists", h, q)
                ctx.case(digest("idx", kind, q), True, ["index-lookup:index%d" % kind, "index-lookup:%s" % ("no-folder" if "/" not in p else "folder")], sample=dict(stored=p, queried=q, index=kind) if i == 0 else None)
                if ro.ok and ro.value is not True:
                    ctx.violation("hash", dict(sub="stored_path_not_found_in_index", index=kind, shape="no-folder" if "/" not in p else "folder"), dict(stored=p, queried=q), files=[f])
                rf = ctx.call("idx.find", h, q)
                if rf.ok and (rf.value["dat"], rf.value["offset"]) != (i % 8, 128 * (i + 1)):
                    ctx.violation("hash", dict(sub="index_entry_of_another_path", index=kind), dict(stored=p, queried=q, got=rf.value, expected=(i % 8, 128 * (i + 1))), files=[f])
            for q in (p + "x", "x" + p, p[:-1] or "q", p.replace("/", "_")):
                if q.lower() in stored_lower:
                    continue
                ro = ctx.call("idx.exists", h, q)
                ctx.case(digest("idx-absent", kind, q), True, ["index-lookup:absent"])
                if ro.ok and ro.value is not False:
                    ctx.violation("hash", dict(sub="absent_path_found_in_index", index=kind), dict(queried=q), files=[f])
        # the same lookups and the free hash functions from several threads at once (one shared index object)
        lines = []
        for p in paths[:20]:
            lines += ["idx.exists %d %s" % (h, p.swapcase().encode().hex()), "idx.find %d %s" % (h, p.encode().hex()), "idx.exists %d %s" % (h, (p + "x").encode().hex()), "hash %s" % p.encode().hex()]
        ctx.shared_between_threads(lines, "index%d+hashes" % kind, files=[f])
        ctx.call("drop", h)


def bucket(n):
    for b in (0, 1, 8, 64, 300, 1024, 4096, 65536, 1 << 20, (1 << 21) - 1, (1 << 29) - 1):
        if n <= b:
            return "<=%d" % b
    return ">=512MiB"
