"""Text material shared by the generators: code-point sweeps (every scalar value of the Basic Multilingual Plane and a sample of
the astral planes, dealt over the shards) and text packed from a given list of code points into a byte budget."""

# astral sample: first / last of the supplementary planes in use, emoji, the two private-use planes
ASTRAL = [0x10000, 0x1003F, 0x1D11E, 0x1F300, 0x1F600, 0x1F64F, 0x1FAFF, 0x20000, 0x2A6DF, 0x2FA1D, 0xE0001, 0xE007F, 0xE0100,
          0xF0000, 0xFFFFD, 0x100000, 0x10FFFD]


def sweep_code_points(index, nshards, stride=1, start=1):
    """the scalar values of the BMP (surrogates excluded; from `start`) that fall to this shard, then the astral sample"""
    cps = [c for c in range(start, 0x10000) if not (0xD800 <= c <= 0xDFFF) and (c // stride) % nshards == index and c % stride == (index % stride)]
    return cps + [c for i, c in enumerate(ASTRAL) if i % nshards == index]


def pack(cps, max_bytes, exclude=()):
    """split the code points into UTF-8 texts of at most max_bytes bytes each (order kept); code points in `exclude` are skipped"""
    out, cur, n = [], [], 0
    for c in cps:
        if c in exclude:
            continue
        b = len(chr(c).encode("utf-8"))
        if n + b > max_bytes and cur:
            out.append("".join(cur))
            cur, n = [], 0
        cur.append(chr(c))
        n += b
    if cur:
        out.append("".join(cur))
    return out


def block_of(c):
    if c < 0x80:
        return "ascii"
    if c < 0x800:
        return "2-byte"
    if 0xE000 <= c <= 0xF8FF:
        return "private-use"
    if 0xFFF0 <= c <= 0xFFFF or 0xFE00 <= c <= 0xFE0F or c == 0xFEFF:
        return "specials"
    if c < 0x10000:
        return "3-byte"
    return "astral"


# --------------------------------------------------------------------------------------------
# constants of the tree under test: a piece size, a keyword, a table of special names introduced by a change can only be hit by
# asking for exactly that value, so the generators harvest the literals of /repo's *current* source (development of DESIGN 14.4)
import os
import re

_lit_cache = {}


def tree_literals(repo, files=None):
    """(sorted integer literals, sorted string literals) of the given source files (paths relative to <repo>/src; None = all).
    Integers: decimal (with _), hex, and the simple products / shifts `a * b`, `a << b` of two literals; test modules are skipped."""
    key = (repo, tuple(files) if files else None)
    if key in _lit_cache:
        return _lit_cache[key]
    ints, strs = set(), set()
    paths = []
    for r, ds, fs in os.walk(os.path.join(repo, "src")):
        for fn in fs:
            if fn.endswith(".rs"):
                rel = os.path.relpath(os.path.join(r, fn), os.path.join(repo, "src"))
                if files is None or rel in files:
                    paths.append(os.path.join(r, fn))
    num = r"(0x[0-9A-Fa-f_]+|\d[\d_]*)(?:[iu](?:8|16|32|64|128|size))?"
    for p in sorted(paths):
        try:
            txt = open(p, encoding="utf-8", errors="replace").read()
        except OSError:
            continue
        cut = txt.find("#[cfg(test)]")
        if cut >= 0:
            txt = txt[:cut]
        txt = re.sub(r"//[^\n]*", "", txt)
        for m in re.finditer(r'"((?:[^"\\\n]|\\.){1,200})"', txt):
            t = m.group(1)
            if "\\" not in t and all(32 <= ord(c) < 127 for c in t):
                strs.add(t)
        def val(s):
            s = s.replace("_", "")
            try:
                return int(s, 16) if s.lower().startswith("0x") else int(s)
            except ValueError:
                return None
        for m in re.finditer(r"(?<![\w.])" + num + r"(?![\w.])", txt):
            v = val(m.group(1))
            if v is not None:
                ints.add(v)
        for m in re.finditer(r"(?<![\w.])" + num + r"\s*(\*|<<)\s*" + num + r"(?![\w.])", txt):
            a, b = val(m.group(1)), val(m.group(3))
            if a is not None and b is not None:
                if m.group(2) == "*":
                    ints.add(a * b)
                elif b < 64:
                    ints.add(a << b)
    _lit_cache[key] = (sorted(ints), sorted(strs))
    return _lit_cache[key]
