"""Fault operators and the batch driver shared by C17 / C18 (DESIGN 4, C17/C18)."""
import json
import os
import struct

from . import core
from .core import digest

VALUES8 = [0, 1, 0x7F, 0x80, 0xFF]
# multi-byte text inserted into textual formats (width code 0xFB, value = index): characters whose lower- / upper-case form has another
# UTF-8 length (I-dot, sharp S, ligatures), CJK, separators that some line splitters honour, a character outside the BMP, BOM, NBSP
UTF8_INSERTS = ["\u0130", "\u1e9e", "\u00e9", "\u65e5\u672c\u8a9e", "\u2028", "\U0001d11e", "\u01c5", "\ufb03", "\r", "\t\t", "\u00a0", "\ufeff", "\u0130\u0130\u0130\u0130", "\u00df"]
QUAD16 = [(3, 0xFFFF, 0x400, 1), (0xFFFF, 3, 0x400, 1), (0xFFFF, 0xFFFF, 3, 1), (1, 0xFFFF, 0xFFFF, 1), (2, 2, 0xFFFF, 0xFFFF), (0xFFFF, 1, 1, 0xFFFF), (0x4000, 0x4000, 0x40, 1)]


def field_values(width, orig, total_len):
    bits = 8 * width
    m = (1 << bits) - 1
    vals = {0, 1, (1 << (bits - 1)) - 1, 1 << (bits - 1), m, (orig + 1) & m, (orig - 1) & m, total_len & m, (total_len + 1) & m}
    if width >= 2:
        vals |= {0xFF, 0x100, 0xFFFF & m}
    vals.discard(orig)
    return sorted(vals)


def mutations(seed, rng, budget, big_endian=False, dense_limit=1536, text=False, field_map=None, always=(), focus=(), cap=None):
    """-> list of (offset, width_code, value, cls); deduplicated"""
    n = len(seed)
    out = []
    seen = set()

    def add(off, w, v, cls):
        k = (off, w, v)
        if k not in seen:
            seen.add(k)
            out.append((off, w, v, cls))

    # truncations: every prefix for small files; otherwise dense at the front + field boundaries + sampled
    if n <= 4096:
        cuts = range(0, n)
    else:
        cuts = sorted(set(list(range(0, 2048)) + [rng.randrange(n) for _ in range(600)] + [n - k for k in range(1, 64)] + [k for k in range(0, n, max(1, n // 400))]))
    for c in cuts:
        add(c, 0, 0, "truncate")
    # single-field corruptions
    if n <= dense_limit:
        offs = list(range(n))
    else:
        offs = sorted(set(list(range(min(n, dense_limit))) + [rng.randrange(n) for _ in range(dense_limit // 2)] + [n - k for k in range(1, min(n, 33))]))
    if field_map:
        offs = sorted(set(offs) | {o for o, w, _ in field_map})
    if focus:
        offs = sorted(set(offs) | {o for a, b in focus for o in range(max(0, a), min(n, b))})
    in_focus = lambda o: o < 256 or any(a <= o < b for a, b in focus)
    for o in offs:
        for w in (1, 2, 4):
            if o + w > n:
                continue
            if w > 1 and n > 600 and o % 2 and not field_map:
                continue
            # zero / all-ones in an aligned field of a header region: the structurally most telling faults, never sampled away
            if o % w == 0 and in_focus(o):
                add(o, w, 0, "header-field%d" % w)
                add(o, w, (1 << (8 * w)) - 1, "header-field%d" % w)
            orig_le = int.from_bytes(seed[o:o + w], "little")
            for v in field_values(w, orig_le, n):
                add(o, w, v, "field%d" % w)
            if big_endian and w > 1:
                orig_be = int.from_bytes(seed[o:o + w], "big")
                for v in field_values(w, orig_be, n):
                    add(o, 0x80 | w, v, "field%d-be" % w)
    # random byte flips
    for _ in range(min(400, 4 * n)):
        if n:
            add(rng.randrange(n), 1, rng.randrange(256), "random-byte")
    # insertions (structural characters / invalid UTF-8 / long runs)
    ins = [ord("<"), ord(">"), 9, 10, 13, 0, 0xFF, 0xC3, ord(","), ord("|")] if text else [0, 0xFF]
    pos = range(0, n + 1) if (text and n <= 600) else [0, n // 2, n] + [rng.randrange(n + 1) for _ in range(40)]
    for p in pos:
        for b in ins:
            add(p, 0xFF, b | (1 << 8), "insert")
    for p in [0, n // 2, n]:
        add(p, 0xFF, 0x41 | (70000 << 8), "insert-long")
    if not text:
        # several header fields damaged together in a self-consistent way (a size and its bound, width x height x depth):
        # single-field faults cannot reach the arithmetic behind a cross-check of two fields
        for o in range(0, min(n, 96), 2):
            if o % 4 == 0 and o + 8 <= n:
                for v in (0xFFFFFFFF, 0x7FFFFFFF, 0x40000000, (n + 1) & 0xFFFFFFFF, 0x10000):
                    add(o, 8, v | (v << 32), "header-field-pair32")
            if o + 8 <= n:
                for q in QUAD16:
                    add(o, 8, q[0] | (q[1] << 16) | (q[2] << 32) | (q[3] << 48), "header-field-quad16")
    if text:
        starts0 = sorted(set([0, n] + [i for i in range(n) if seed[i] not in b"\t\r\n,=; " and (i == 0 or seed[i - 1] in b"\t\r\n,=; ")]))
        if len(starts0) > 120:
            starts0 = starts0[:60] + rng.sample(starts0[60:], 60)
        for st in starts0:
            for k in range(len(UTF8_INSERTS)):
                add(st, 0xFB, k, "insert-utf8")
        # token-level faults of textual formats: every field replaced by boundary numbers / removed
        starts = [i for i in range(n) if seed[i] not in b"\t\r\n,=; " and (i == 0 or seed[i - 1] in b"\t\r\n,=; ")]
        if len(starts) > 400:
            starts = starts[:200] + rng.sample(starts[200:], 200)
        for st in starts:
            for v in (0, 1, 2 ** 31 - 1, 2 ** 31, 2 ** 32 - 1, 2 ** 32, 2 ** 63 - 1, 2 ** 63, 2 ** 64 - 1):
                add(st, 0xFE, v, "token-number")
            for v in (-1, -2 ** 31, -2 ** 63):
                add(st, 0xFD, v & (2 ** 64 - 1), "token-number")
            add(st, 0xFC, 0, "token-removed")
    if len(out) > budget:
        is_tr = lambda m: m[3] == "truncate" and (m[0] < 512 or m[0] % 7 == 0)
        tr = [m for m in out if is_tr(m)][:budget // 3]
        tok = [m for m in out if m[3].startswith("token-")]
        rng.shuffle(tok)
        hf = [m for m in out if m[3].startswith("header-field")]
        u8 = [m for m in out if m[3] == "insert-utf8"]
        rng.shuffle(u8)
        tok = tok[:budget // 3] + hf + u8[:max(300, budget // 6)]
        rest = [m for m in out if not is_tr(m) and not m[3].startswith("token-") and not m[3].startswith("header-field") and m[3] != "insert-utf8"]
        rng.shuffle(rest)
        out = tr + tok + rest[:max(0, budget - len(tr) - len(tok))]
    # structural faults that must not be lost to sampling (link cycles, ...)
    have = {(o, w, v) for o, w, v, _ in out}
    for (o, w, v, c) in always:
        if (o, w, v) not in have:
            out.append((o, w, v, c))
    if cap is not None and len(out) > cap:
        # interpreter runs (Miri): a small stratified sample, every operator class represented
        by = {}
        for m in out:
            if m[3] == "insert-long":
                continue        # 70 000 bytes through an interpreter cost minutes per case
            by.setdefault(m[3], []).append(m)
        pick = []
        while len(pick) < cap and by:
            for c in list(by):
                pick.append(by[c].pop(rng.randrange(len(by[c]))))
                if not by[c]:
                    del by[c]
                if len(pick) >= cap:
                    break
        out = pick
    return out


def apply_mutation(seed, off, w, v):
    b = bytearray(seed)
    if w == 0:
        return bytes(b[:off])
    if w in (1, 2, 4, 8):
        le = v.to_bytes(8, "little")
        for i in range(w):
            if off + i < len(b):
                b[off + i] = le[i]
        return bytes(b)
    if w in (0x82, 0x84):
        k = w & 0xF
        be = v.to_bytes(8, "big")
        for i in range(k):
            if off + i < len(b):
                b[off + i] = be[8 - k + i]
        return bytes(b)
    if w == 0xFB:
        at = min(off, len(b))
        return bytes(b[:at]) + UTF8_INSERTS[v % len(UTF8_INSERTS)].encode("utf-8") + bytes(b[at:])
    if w in (0xFC, 0xFD, 0xFE):
        at = min(off, len(b))
        end = at
        while end < len(b) and b[end] not in b"\t\r\n,=; ":
            end += 1
        text = b"" if w == 0xFC else str(v if w == 0xFE else (v - (1 << 64) if v >= (1 << 63) else v)).encode()
        return bytes(b[:at]) + text + bytes(b[end:])
    if w == 0xFF:
        cnt = min(v >> 8, 1 << 20)
        at = min(off, len(b))
        return bytes(b[:at]) + bytes([v & 0xFF]) * cnt + bytes(b[at:])
    return bytes(b)


def run_batch(ctx, kind, seed, muts, aux=(), label="", expect_err_on_truncate=False, must_not_be_ok=None, entry=None, sig_extra=None):
    """run all mutations of one seed through one entry point; turns results into violations"""
    entry = entry or kind
    if sig_extra:
        # every signature of this batch carries the extra keys (e.g. the shape of a from-scratch input), so that a listed finding about
        # that shape cannot mask a violation found by ordinary faults, and vice versa
        real = ctx

        class _Tagged:
            def __getattr__(self, a):
                return getattr(real, a)

            def violation(self, k, sig, *a, **kw):
                return real.violation(k, dict(sig, **sig_extra), *a, **kw)
        ctx = _Tagged()
    sd = digest(kind, seed)
    seedf = ctx.write("seed-%s.bin" % sd, seed)
    mutf = ctx.write("mut-%s.bin" % sd, b"".join(struct.pack("<IBQ", o, w, v) for o, w, v, _ in muts))
    prog = ctx.path("progress-%s.bin" % sd)
    work = ctx.path("work")
    os.makedirs(work, exist_ok=True)
    start = 0
    total = len(muts)
    st = ctx.stats
    guard = 0
    stalls = 0
    while start < total and guard < 60:
        guard += 1
        # per-case stall limit: 20 x the CPU budget of the largest possible case (2 s + 20 s/MiB), at least 40 s of CPU time
        stall = max(40.0, 20 * (2.0 + 20.0 * (len(seed) + (1 << 20) * 0.07) / (1 << 20)))
        rec = ctx.call("fault.batch", kind, seedf, mutf, prog, start, work, *aux, limit=None, timeout=900, progress=prog, case_cpu_s=stall)
        st.monitor["fault_batches"] += 1
        if rec.outcome == "ok":
            v = rec.value
            done = v["n"]
            st.evaluations += done
            for k in ("ok", "none", "err", "panic"):
                st.classes["%s:outcome-%s" % (entry, k)] += v[k]
            st.maximum("cpu_us", v["max_cpu_us"])
            if v["max_cpu_us"] > 1_000_000:
                ctx.note("slowest case of a batch took more than 1 s of CPU: %s %s (%s, %d bytes): %.1f s" % (ctx.variant, kind, label, len(seed), v["max_cpu_us"] / 1e6))
            st.maximum("peak_bytes", v["max_peak"])
            st.maximum("max_request_bytes", v["max_req"])
            for s in v["sites"]:
                f, l = s["file"], s["line"]
                if not f.startswith("src/") and s.get("frames"):
                    f, l = s["frames"][0]["file"], s["frames"][0]["line"]
                text = core.source_line(f, l)
                case = s["first_case"]
                o, w, val, cls = muts[case]
                files = save_case(ctx, seed, muts[case])
                ctx.violation("panic", dict(kind="panic", entry=entry, file=f, line_text=text, msg=core.msg_class(s["msg"])),
                              dict(count=s["count"], first_case=dict(offset=o, width=w, value=val, operator=cls, seed_len=len(seed)), msg=s["msg"][:200], line=l, label=label),
                              files=files, commands=[dict(verb="fault.batch", args=[kind, files[0], files[1], prog, 0, work] + list(aux), skew=(case + rec.get("skew", 0)) % 4)])
            oversz = {o.get("case"): o for o in rec.get("oversize") or []}
            for fl in v["flags"]:
                case = fl["case"]
                o, w, val, cls = muts[case]
                files = save_case(ctx, seed, muts[case])
                site, text = "", ""
                ov = oversz.get(case)
                if ov and ov.get("frames"):
                    site = ov["frames"][0]["file"]
                    text = core.source_line(site, ov["frames"][0]["line"])
                sig = dict(kind=fl["kind"], entry=entry)
                if fl["kind"] == "cpu" and fl["value"] < 20 * fl["budget"]:
                    # CPU time includes kernel time (page faults, file-system work), which a heavily loaded machine inflates several
                    # times over: a reading above the budget counts only if it reproduces when the case runs again on its own
                    again = []
                    for _ in range(2):
                        r2 = ctx.call("fault.batch", kind, files[0], files[1], prog, 0, work, *aux, limit=None, timeout=900)
                        if r2.outcome == "ok" and r2.value.get("n") == 1:
                            again.append(r2.value["max_cpu_us"])
                            if again[-1] <= fl["budget"]:
                                break
                        else:
                            break
                    if again and min(again) <= fl["budget"]:
                        ctx.note("CPU reading above the budget not reproduced when the case ran alone (machine load): %s %s" % (ctx.variant, entry))
                        continue
                    fl = dict(fl, rerun_cpu_us=again)
                if fl["kind"] == "alloc":
                    sig.update(file=site, line_text=text)
                if fl["kind"] == "residual":
                    sig.update(bytes=fl["value"])
                ctx.violation(fl["kind"], sig, dict(value=fl["value"], budget=fl["budget"], case=dict(offset=o, width=w, value=val, operator=cls, seed_len=len(seed)), label=label),
                              files=files, commands=[dict(verb="fault.batch", args=[kind, files[0], files[1], prog, 0, work] + list(aux), skew=(case + rec.get("skew", 0)) % 4)])
            if expect_err_on_truncate or must_not_be_ok:
                for case in v["ok_cases"]:
                    o, w, val, cls = muts[case]
                    bad = (expect_err_on_truncate and w == 0 and o < len(seed)) or (must_not_be_ok and must_not_be_ok(muts[case]))
                    if bad:
                        files = save_case(ctx, seed, muts[case])
                        ctx.violation("partial", dict(kind="partial", entry=entry, sub="ok_on_truncated_input"), dict(case=dict(offset=o, seed_len=len(seed)), label=label), files=files,
                                      commands=[dict(verb="fault.batch", args=[kind, files[0], files[1], prog, 0, work] + list(aux), skew=(case + rec.get("skew", 0)) % 4)])
                        break
            start += done
            break
        if rec.outcome.startswith("abort") or rec.outcome == "timeout":
            try:
                case = struct.unpack("<Q", open(prog, "rb").read(8))[0]
            except Exception:
                ctx.inconclusive("fault batch died without progress record: %s" % rec.outcome)
                break
            o, w, val, cls = muts[case] if case < total else (0, 0, 0, "?")
            files = save_case(ctx, seed, muts[case]) if case < total else []
            if rec.outcome == "timeout":
                ctx.inconclusive("watchdog in fault batch %s case %d" % (kind, case))
            elif rec.outcome == "abort:cpu-stall" and ctx.variant == "memcheck":
                # under valgrind (20-50x slower, no address-space limit so that huge reservations are really filled) the stall limit says
                # nothing about the library: the CPU clause is decided by the native stages
                stalls += 1
                ctx.inconclusive("memcheck: a case exceeded the CPU stall limit under valgrind (%s); the CPU clause is decided natively" % entry)
            elif rec.outcome == "abort:cpu-stall":
                stalls += 1
                ctx.violation("cpu", dict(kind="cpu", entry=entry), dict(cpu_s=rec.get("cpu_s"), stall_limit_s=stall, note="case did not finish; worker killed on CPU time",
                                                                     case=dict(offset=o, width=w, value=val, operator=cls, seed_len=len(seed)), label=label),
                              files=files, commands=[dict(verb="fault.batch", args=[kind, files[0], files[1], prog, 0, work] + list(aux), skew=(case + rec.get("skew", 0)) % 4)] if files else None)
            else:
                what = rec.outcome[6:]
                site, text = "", ""
                ov = [x for x in (rec.get("oversize") or []) if x.get("case") == case]
                if ov and ov[-1].get("frames"):
                    site = ov[-1]["frames"][0]["file"]
                    text = core.source_line(site, ov[-1]["frames"][0]["line"])
                if what.startswith("sanitizer"):
                    site, text = core.sanitizer_site(rec.get("stderr", ""))
                ctx.violation("abort", dict(kind="abort", entry=entry, what=what, file=site, line_text=text),
                              dict(case=dict(offset=o, width=w, value=val, operator=cls, seed_len=len(seed)), stderr=rec.get("stderr", "")[-1500:], label=label),
                              files=files, commands=[dict(verb="fault.batch", args=[kind, files[0], files[1], prog, 0, work] + list(aux), skew=(case + rec.get("skew", 0)) % 4)])
            st.evaluations += case - start + 1
            start = case + 1
            if stalls >= 3:
                # the verdict is in; every further stalled case would cost its full stall limit again
                ctx.note("fault batch abandoned after 3 stalled cases (%s)" % kind)
                break
            continue
        ctx.inconclusive("fault batch: unexpected outcome %s %s" % (rec.outcome, str(rec.value)[:100]))
        break
    # coverage accounting: distinct (seed, mutation) pairs beyond the first 16 bytes are non-trivial
    nt = sum(1 for o, w, v, c in muts if o >= 16 or len(seed) <= 16)
    st.nontrivial_n += nt
    ops = {}
    for _, _, _, c in muts:
        ops[c] = ops.get(c, 0) + 1
    for c, k in ops.items():
        st.classes["%s:op-%s" % (entry, c)] += k
    if len(st.samples) < 3:
        o, w, v, c = muts[len(muts) // 2]
        st.samples.append(dict(entry=entry, seed_bytes=len(seed), seed_label=label, cases=len(muts), example=dict(operator=c, offset=o, width=w, value=v)))
    for p in (seedf, mutf, prog):
        try:
            os.unlink(p)
        except OSError:
            pass


def save_case(ctx, seed, mut):
    """materialise one faulted case as (seed file, one-record mutation file) for replay"""
    o, w, v, _ = mut
    tag = digest(seed, o, w, v)[:10]
    a = ctx.write("case-%s.seed" % tag, seed)
    b = ctx.write("case-%s.mut" % tag, struct.pack("<IBQ", o, w, v))
    c = ctx.write("case-%s.faulted" % tag, apply_mutation(seed, o, w, v))
    return [a, b, c]


def damaged_variants(rng, data, n=4):
    """a few damaged forms of a valid file that its parser should refuse or survive: cut short, garbled in the middle, a foreign
    file, nothing"""
    out = []
    for _ in range(n):
        k = rng.random()
        if k < 0.45 and len(data) > 8:
            out.append(data[:rng.randrange(4, len(data))])
        elif k < 0.8 and len(data) > 16:
            b = bytearray(data)
            p = rng.randrange(8, len(b))
            for j in range(p, min(len(b), p + rng.choice([1, 4, 32]))):
                b[j] = rng.randrange(256)
            out.append(bytes(b))
        elif k < 0.9:
            out.append(rng.randbytes(rng.choice([1, 64, 3000])))
        else:
            out.append(b"")
    return out

