"""Core of the runtime-monitoring framework: builds of the shim, worker supervisor, monitors'
verdict rules, known-findings filter, evidence writer, sharded execution.

Stdlib only. See /verif/DESIGN.md sections 2, 3, 5 and 10.
"""
import collections
import fcntl
import hashlib
import json
import multiprocessing
import os
import random
import re
import resource
import select
import shutil
import signal
import struct
import subprocess
import sys
import tempfile
import time
import traceback

VERIF = os.path.dirname(os.path.dirname(os.path.abspath(__file__)))
REPO = os.environ.get("VERIF_REPO_DIR", "/repo")
BUILD = os.environ.get("VERIF_BUILD_DIR") or os.path.join(VERIF, ".build")
SHIM = os.path.join(VERIF, "shim")
if REPO != "/repo":
    # development aid (seeded-change evaluation in a scratch worktree while /repo stays untouched): a copy of the shim whose
    # path dependency names that tree, built into VERIF_BUILD_DIR. The registered checks never set VERIF_REPO_DIR.
    if not os.environ.get("VERIF_BUILD_DIR"):
        raise SystemExit("VERIF_REPO_DIR needs VERIF_BUILD_DIR")
    _alt = os.path.join(BUILD, "shim-src")
    os.makedirs(_alt, exist_ok=True)
    import shutil as _sh
    for _r, _ds, _fs in os.walk(SHIM):
        if "target" in _ds:
            _ds.remove("target")
        _dst = os.path.join(_alt, os.path.relpath(_r, SHIM))
        os.makedirs(_dst, exist_ok=True)
        for _f in _fs:
            _b = open(os.path.join(_r, _f), "rb").read()
            if _f == "Cargo.toml":
                _b = _b.replace(b'path = "/repo"', b'path = "%s"' % REPO.encode())
            _t = os.path.join(_dst, _f)
            if not os.path.exists(_t) or open(_t, "rb").read() != _b:
                open(_t, "wb").write(_b)
    SHIM = _alt
NCPU = min(16, os.cpu_count() or 4)

CARGO_ENV = {"CARGO_NET_OFFLINE": "true"}

# --------------------------------------------------------------------------------------------
# builds


class BuildError(Exception):
    pass


def _cargo_env(extra):
    e = dict(os.environ)
    e.update(CARGO_ENV)
    e.update(extra)
    return e


VARIANTS = {
    "debug": dict(
        cmd=["cargo", "build", "--offline"],
        env={"RUSTFLAGS": "--cfg physis_verif"},
        bin="debug/verif-shim",
    ),
    "release": dict(
        cmd=["cargo", "build", "--offline", "--release"],
        env={"RUSTFLAGS": "--cfg physis_verif"},
        bin="release/verif-shim",
    ),
    "asan": dict(
        cmd=["cargo", "+nightly", "build", "--offline", "--target", "x86_64-unknown-linux-gnu"],
        env={
            "RUSTFLAGS": "--cfg physis_verif --cfg verif_asan -Zsanitizer=address -Cforce-frame-pointers=yes"
        },
        bin="x86_64-unknown-linux-gnu/debug/verif-shim",
    ),
    # coverage-instrumented build (development aid, tools/coverage.sh): VERIF_COVERAGE=1 maps the debug stages onto it
    "cov": dict(
        cmd=["cargo", "+nightly", "build", "--offline"],
        env={"RUSTFLAGS": "--cfg physis_verif --cfg verif_cov -Cinstrument-coverage", "LLVM_PROFILE_FILE": os.path.join(VERIF, ".build", "cov-build-%p.profraw")},
        bin="debug/verif-shim",
    ),
    # valgrind memcheck over the plain release build (uninitialised-value use, which neither ASan nor the native monitors see;
    # invalid reads / writes / frees; definite leaks at exit). Shares the release target directory.
    "memcheck": dict(
        cmd=["cargo", "build", "--offline", "--release"],
        env={"RUSTFLAGS": "--cfg physis_verif"},
        bin="release/verif-shim",
        tdir="release",
        wrap=["valgrind", "--quiet", "--error-exitcode=97", "--leak-check=full", "--show-leak-kinds=definite",
              "--errors-for-leak-kinds=definite", "--num-callers=40", "--track-origins=yes", "--vgdb=no"],
    ),
    # the UB / leak interpreter: no binary of its own, the worker is `cargo miri run` of the same shim (interactive protocol
    # over stdin works with isolation disabled); the build step interprets an empty script so that everything is compiled once
    "miri": dict(
        cmd=["cargo", "+nightly", "miri", "run", "--offline", "-q", "--", "--script", "/dev/null"],
        env={"RUSTFLAGS": "--cfg physis_verif", "MIRIFLAGS": "-Zmiri-disable-isolation", "VERIF_NO_WARM": "1", "VERIF_TOUCH": "1"},
        bin=None,
    ),
}
MIRI_WATCHDOG_S = 900.0


def build(variant, quiet=True):
    """Build the shim variant from /repo's current working tree; returns the binary path."""
    v = VARIANTS[variant]
    os.makedirs(BUILD, exist_ok=True)
    tdir = os.path.join(BUILD, v.get("tdir", variant))
    lock = open(os.path.join(BUILD, v.get("tdir", variant) + ".lock"), "w")
    fcntl.flock(lock, fcntl.LOCK_EX)
    try:
        env = _cargo_env(dict(v["env"], CARGO_TARGET_DIR=tdir))
        t0 = time.time()
        p = subprocess.run(v["cmd"], cwd=SHIM, env=env, stdout=subprocess.PIPE, stderr=subprocess.STDOUT, text=True)
        if p.returncode != 0:
            raise BuildError("build of variant %s failed:\n%s" % (variant, p.stdout[-6000:]))
        if not quiet:
            print("[build] %s ok in %.1fs" % (variant, time.time() - t0), flush=True)
    finally:
        fcntl.flock(lock, fcntl.LOCK_UN)
        lock.close()
    if v["bin"] is None:
        return ["cargo", "+nightly", "miri", "run", "--offline", "-q", "--manifest-path", os.path.join(SHIM, "Cargo.toml"), "--"]
    if v.get("wrap"):
        if not shutil.which(v["wrap"][0]):
            raise BuildError("%s is not installed" % v["wrap"][0])
        return v["wrap"] + [os.path.join(tdir, v["bin"])]
    return os.path.join(tdir, v["bin"])


# --------------------------------------------------------------------------------------------
# worker supervisor

WATCHDOG_S = 180.0
RLIMIT_AS_BYTES = 4 << 30
RLIMIT_FSIZE_BYTES = 256 << 20


def enc(s):
    """encode an arbitrary text argument for the line protocol"""
    if isinstance(s, bytes):
        return "h:" + s.hex()
    s = str(s)
    if s and re.fullmatch(r"[A-Za-z0-9_./,\-+=:@]+", s) and not s.startswith("h:"):
        return s
    return "h:" + s.encode("utf-8").hex()


class Rec(dict):
    """one return record (plus synthesized fields for aborts)"""

    @property
    def outcome(self):
        return self.get("outcome")

    @property
    def value(self):
        return self.get("value")

    @property
    def mon(self):
        return self.get("mon") or {}

    @property
    def ok(self):
        return self.get("outcome") == "ok"


class Worker:
    def __init__(self, variant, scratch, binary=None, extra_env=None, rlimit_as=True):
        self.variant = variant
        self.scratch = scratch
        self.binary = binary or build(variant)
        self.proc = None
        self.seq = 0
        self.generation = 0
        self.extra_env = extra_env or {}
        self.rlimit_as = rlimit_as and variant not in ("asan", "miri", "memcheck")
        self.err_seen = 0
        self.errpath = os.path.join(scratch, "worker-%s-%d.stderr" % (variant, os.getpid()))
        self.commands = 0
        self.restarts = 0
        self.log = None  # optional list collecting (line, rec)

    def _preexec(self):
        resource.setrlimit(resource.RLIMIT_CORE, (0, 0))
        if self.rlimit_as:
            resource.setrlimit(resource.RLIMIT_AS, (RLIMIT_AS_BYTES, RLIMIT_AS_BYTES))
        resource.setrlimit(resource.RLIMIT_FSIZE, (RLIMIT_FSIZE_BYTES, RLIMIT_FSIZE_BYTES))
        signal.signal(signal.SIGXFSZ, signal.SIG_IGN)

    def start(self):
        env = dict(os.environ)
        env["VERIF_REPO_DIR"] = REPO
        env["RUST_BACKTRACE"] = "0"
        if self.variant == "asan":
            env["ASAN_OPTIONS"] = (
                "detect_leaks=1:halt_on_error=1:abort_on_error=1:allocator_may_return_null=1:"
                "max_allocation_size_mb=4096:hard_rss_limit_mb=8192:detect_stack_use_after_return=0:symbolize=1"
            )
            env["LSAN_OPTIONS"] = "report_objects=1"
            env["ASAN_SYMBOLIZER_PATH"] = shutil.which("llvm-symbolizer-14") or shutil.which("llvm-symbolizer") or ""
        if self.variant == "miri":
            env.update(_cargo_env(dict(VARIANTS["miri"]["env"], CARGO_TARGET_DIR=os.path.join(BUILD, "miri"))))
        if self.variant == "memcheck":
            env["VERIF_NO_WARM"] = "1"
            env["VERIF_TOUCH"] = "1"
        if self.variant == "cov":
            env["LLVM_PROFILE_FILE"] = os.path.join(BUILD, "cov-profiles", "%p-%m.profraw")
        env.update(self.extra_env)
        self.errf = open(self.errpath, "wb")
        self.proc = subprocess.Popen(
            self.binary if isinstance(self.binary, list) else [self.binary], stdin=subprocess.PIPE, stdout=subprocess.PIPE, stderr=self.errf, env=env,
            preexec_fn=self._preexec, bufsize=0,
        )
        self.buf = b""
        self.generation += 1
        self.err_seen = 0
        line = self._readline(60 if self.variant not in ("miri", "memcheck") else 600)
        if line is None or b"ready" not in line:
            raise RuntimeError("worker did not start: %r %s" % (line, self.stderr_tail()))

    def _readline(self, timeout):
        deadline = time.time() + timeout
        while b"\n" not in self.buf:
            left = deadline - time.time()
            if left <= 0:
                return None
            r, _, _ = select.select([self.proc.stdout], [], [], min(left, 5.0))
            if r:
                chunk = os.read(self.proc.stdout.fileno(), 1 << 16)
                if not chunk:
                    return b""  # EOF
                self.buf += chunk
        line, self.buf = self.buf.split(b"\n", 1)
        return line

    def stderr_tail(self, n=6000):
        try:
            self.errf.flush()
        except Exception:
            pass
        try:
            with open(self.errpath, "rb") as f:
                data = f.read()
            return data[-n:].decode("utf-8", "replace")
        except OSError:
            return ""

    def _new_stderr(self):
        try:
            if self.proc is not None:
                self.errf.flush()
            with open(self.errpath, "rb") as f:
                f.seek(self.err_seen)
                data = f.read()
            self.err_seen += len(data)
            return data.decode("utf-8", "replace")
        except (OSError, ValueError):
            return ""

    def _reap(self):
        try:
            self.proc.stdin.close()
        except Exception:
            pass
        try:
            rc = self.proc.wait(timeout=20)
        except subprocess.TimeoutExpired:
            self.proc.kill()
            rc = self.proc.wait()
        try:
            self.proc.stdout.close()
        except Exception:
            pass
        tail = self.stderr_tail()
        # sanitizer reports can be very long: keep the head of the report too, it names the error
        full = self.stderr_tail(2 << 20)
        m = re.search(r"ERROR: (AddressSanitizer|LeakSanitizer): [^\n]*", full)
        if m and m.group(0) not in tail:
            tail = m.group(0) + "\n...\n" + tail
        try:
            self.errf.close()
        except Exception:
            pass
        self.proc = None
        return rc, tail

    def _cpu_seconds(self):
        """CPU time (user + system) the worker process has consumed so far; independent of machine load"""
        try:
            f = open("/proc/%d/stat" % self.proc.pid).read().rsplit(")", 1)[1].split()
            return (int(f[11]) + int(f[12])) / os.sysconf("SC_CLK_TCK")
        except (OSError, ValueError, IndexError):
            return None

    def call(self, verb, *args, limit=None, timeout=None, skew=None, progress=None, case_cpu_s=None):
        """execute one command; always returns a Rec (aborts / timeouts are synthesized).
        skew: the library gets its input buffers this many bytes off their allocation's alignment (default: cycles 0..3 with the
        command number, so every verb is also exercised with odd-address buffers; a replay passes the recorded value)"""
        if self.proc is None:
            self.start()
        self.seq += 1
        self.commands += 1
        seq = self.seq
        lim = limit if limit is not None else (1 << 62)
        if skew is None:
            skew = seq % 4
        line = "%d %d %s" % (seq, lim, verb if not skew else "%s@%d" % (verb, skew))
        for a in args:
            line += " " + enc(a)
        try:
            self.proc.stdin.write(line.encode() + b"\n")
            self.proc.stdin.flush()
        except (BrokenPipeError, OSError):
            pass
        oversize = []
        tmo = (timeout or WATCHDOG_S) if self.variant != "miri" else max(timeout or 0, MIRI_WATCHDOG_S)
        deadline = time.time() + tmo
        watch = progress is not None and case_cpu_s is not None and self.variant != "miri"
        last_case, cpu_mark = None, None
        while True:
            l = self._readline(min(5.0, max(0.1, deadline - time.time())) if watch else tmo)
            if l is None and watch and time.time() < deadline:
                # a batch reports the case in flight through its progress file: a case that has burnt far more CPU time than its
                # budget without finishing "runs unboundedly" - a verdict on CPU time, not on the wall clock
                try:
                    case = struct.unpack("<Q", open(progress, "rb").read(8))[0]
                except Exception:
                    case = None
                cpu = self._cpu_seconds()
                if case is not None and cpu is not None:
                    if case != last_case:
                        last_case, cpu_mark = case, cpu
                    elif cpu - cpu_mark > case_cpu_s:
                        self.proc.kill()
                        rc, tail = self._reap()
                        self.restarts += 1
                        rec = Rec(seq=seq, verb=verb, outcome="abort:cpu-stall", value=None, mon={}, stderr=tail[-2000:], oversize=oversize, stalled_case=case,
                                  cpu_s=round(cpu - cpu_mark, 1))
                        break
                continue
            if l is None:
                # watchdog: inconclusive
                self.proc.kill()
                rc, tail = self._reap()
                self.restarts += 1
                rec = Rec(seq=seq, verb=verb, outcome="timeout", value=None, mon={}, stderr=tail[-2000:], oversize=oversize)
                break
            if l == b"":
                rc, tail = self._reap()
                self.restarts += 1
                rec = Rec(seq=seq, verb=verb, outcome="abort:" + classify_death(rc, tail), value=None, mon={},
                          rc=rc, stderr=tail[-4000:], oversize=oversize)
                break
            try:
                j = json.loads(l)
            except ValueError:
                continue
            if j.get("seq") != seq:
                continue
            if j.get("ev") == "oversize":
                oversize.append(j)
            elif j.get("ev") == "ret":
                rec = Rec(j)
                rec["oversize"] = oversize
                break
        if self.variant == "memcheck":
            # valgrind writes its reports to stderr as they happen: what appeared during this command belongs to it
            txt = self._new_stderr()
            m = MEMCHECK_RE.search(txt)
            if m:
                rec["memcheck"] = dict(what=memcheck_class(m.group(0)), text=txt[max(0, m.start() - 200):m.start() + 12000])
        rec["args"] = [str(a) if not isinstance(a, bytes) else a.hex() for a in args]
        rec.setdefault("skew", skew)
        rec["variant"] = self.variant
        if self.log is not None:
            self.log.append(rec)
        return rec

    def close(self):
        if self.proc is not None:
            try:
                self.proc.stdin.write(b"0 0 quit\n")
                self.proc.stdin.flush()
            except Exception:
                pass
            rc, tail = self._reap()
            self.last_exit = (rc, tail)
            return rc, tail
        return 0, ""


MEMCHECK_RE = re.compile(r"==\d+== (Invalid (read|write|free)|Conditional jump or move depends on uninitialised|Use of uninitialised value|"
                         r"Syscall param \S+ (points to|contains) uninitialised|Mismatched free|Source and destination overlap|"
                         r"[\d,]+ (\([^)]*\) )?bytes in [\d,]+ blocks are definitely lost)[^\n]*")


def memcheck_class(line):
    t = re.sub(r"^==\d+== ", "", line)
    if "definitely lost" in t:
        return "memcheck(leak)"
    t = re.sub(r" of size \d+", "", t)
    return "memcheck(%s)" % "-".join(t.lower().split()[:4])


def memcheck_site(text):
    """first frame of a valgrind report that lies in the tree under test (valgrind prints base names: resolved under src/)"""
    for m in re.finditer(r"(?:at|by) 0x[0-9A-F]+: (\S+).*? \(([A-Za-z0-9_]+\.rs):(\d+)\)", text):
        sym, base, line = m.group(1), m.group(2), int(m.group(3))
        if "physis" not in sym:
            continue
        for r, ds, fs in os.walk(os.path.join(REPO, "src")):
            if base in fs:
                rel = os.path.relpath(os.path.join(r, base), REPO)
                t = source_line(rel, line)
                if t:
                    return rel, t
    return "", ""


def classify_death(rc, tail):
    if re.search(r"==\d+== Stack overflow in thread", tail):
        return "stack-overflow"
    if "error: Undefined Behavior" in tail:
        return "miri(undefined-behavior)"
    if "error: unsupported operation" in tail:
        return "miri(unsupported)"
    if "error: memory leaked" in tail:
        return "miri(leak)"
    if "memory allocation of" in tail and "failed" in tail:
        return "alloc"
    if "hard rss limit exhausted" in tail or "failed to allocate" in tail and "ERROR: AddressSanitizer" not in tail:
        return "alloc"
    if "ERROR: AddressSanitizer" in tail or "ERROR: LeakSanitizer" in tail:
        m = re.search(r"ERROR: (AddressSanitizer|LeakSanitizer): ([A-Za-z0-9_\-]+)", tail)
        if m and m.group(2) == "stack-overflow":
            return "stack-overflow"
        return "sanitizer(%s)" % (m.group(2) if m else "report")
    if "memory allocation of" in tail and "failed" in tail:
        return "alloc"
    if "has overflowed its stack" in tail or "stack overflow" in tail:
        return "stack-overflow"
    if "panic in a function that cannot unwind" in tail or "panicked while panicking" in tail or "failed to initiate panic" in tail:
        return "double-panic"
    if rc is not None and rc < 0:
        try:
            return "signal(%s)" % signal.Signals(-rc).name
        except ValueError:
            return "signal(%d)" % -rc
    return "exit(%s)" % rc


# --------------------------------------------------------------------------------------------
# monitors' verdict rules (DESIGN 3.1 - 3.3)

CPU_BASE_US = 2_000_000
CPU_PER_MIB_US = 20_000_000
ALLOC_FACTOR = 64
ALLOC_BASE = 64 << 20


def alloc_limit(input_bytes):
    return ALLOC_FACTOR * input_bytes + ALLOC_BASE


_src_cache = {}


def source_line(file, line):
    """whitespace-normalised text of a source line of the tree under test"""
    key = (file, line)
    if key not in _src_cache:
        text = ""
        try:
            p = file if os.path.isabs(file) else os.path.join(REPO, file)
            with open(p, "r", errors="replace") as f:
                lines = f.read().split("\n")
            if 1 <= line <= len(lines):
                text = " ".join(lines[line - 1].split())
        except OSError:
            pass
        _src_cache[key] = text
    return _src_cache[key]


def msg_class(msg):
    m = msg
    m = re.sub(r"(on an `Err` value).*", r"\1", m, flags=re.S)
    m = re.sub(r"`[^`]*`", lambda x: x.group(0) if len(x.group(0)) < 40 else "`..`", m)
    m = re.sub(r"\"[^\"]*\"", "\"..\"", m)
    m = re.sub(r"-?\d+", "N", m)
    # "Unexpected vertex type for uv: SingleN" -> keep the part in front of a trailing single token
    m = re.sub(r"^(.{12,}?): [A-Za-z_][A-Za-z0-9_]*$", r"\1", m)
    m = " ".join(m.split())
    return m[:160]


def panic_site(rec):
    """(file, line_text, msg_class) identifying a crash site; uses the first in-crate frame when
    the panic location lies outside the crate"""
    p = rec.get("panic") or {}
    f, l = p.get("file", "?"), p.get("line", 0)
    if not f.startswith("src/"):
        frames = p.get("frames") or []
        if frames:
            f, l = frames[0]["file"], frames[0]["line"]
    return f, source_line(f, l), msg_class(p.get("msg", ""))


def monitor_verdicts(rec, input_bytes, residual=True, entry=None):
    """generic monitors on one return record -> list of violation dicts (may be empty),
    or [{'inconclusive':..}] entries"""
    out = []
    entry = entry or rec.get("verb")
    oc = rec.get("outcome", "")
    if oc == "timeout":
        out.append(dict(inconclusive="watchdog", entry=entry))
        return out
    if oc == "usage":
        out.append(dict(inconclusive="harness usage error: %s" % rec.get("value"), entry=entry))
        return out
    if oc == "panic":
        f, text, mc = panic_site(rec)
        out.append(dict(kind="panic", sig=dict(kind="panic", entry=entry, file=f, line_text=text, msg=mc),
                        detail=dict(panic=rec.get("panic"))))
    elif oc == "abort:miri(unsupported)":
        # the interpreter cannot execute something (a foreign function, an unsupported syscall): no verdict
        m = re.search(r"error: unsupported operation: [^\n]*", rec.get("stderr", ""))
        out.append(dict(inconclusive="miri: %s" % (m.group(0)[:160] if m else "unsupported operation"), entry=entry))
        return out
    elif oc.startswith("abort:"):
        what = oc[6:]
        site = ""
        text = ""
        if rec.get("oversize"):
            fr = rec["oversize"][-1].get("frames") or []
            if fr:
                site = fr[0]["file"]
                text = source_line(fr[0]["file"], fr[0]["line"])
        if what.startswith("sanitizer"):
            site, text = sanitizer_site(rec.get("stderr", ""))
        if what.startswith("miri"):
            site, text = miri_site(rec.get("stderr", ""))
        out.append(dict(kind="abort", sig=dict(kind="abort", entry=entry, what=what, file=site, line_text=text),
                        detail=dict(stderr=rec.get("stderr", "")[-3000:], oversize=rec.get("oversize"))))
        return out
    if rec.get("memcheck"):
        site, text = memcheck_site(rec["memcheck"]["text"])
        out.append(dict(kind="sanitizer", sig=dict(kind="sanitizer", entry=entry, what=rec["memcheck"]["what"], file=site, line_text=text),
                        detail=dict(stderr=rec["memcheck"]["text"])))
    mon = rec.get("mon") or {}
    if mon:
        cpu = mon.get("cpu_us", 0)
        budget = CPU_BASE_US + CPU_PER_MIB_US * input_bytes / (1 << 20)
        if rec.get("variant") == "memcheck":
            budget *= 60  # valgrind's slowdown is 20-50x; the CPU clause is decided by the native stages
        if cpu > budget:
            out.append(dict(kind="cpu", sig=dict(kind="cpu", entry=entry), detail=dict(cpu_us=cpu, budget_us=budget)))
        lim = alloc_limit(input_bytes)
        if mon.get("peak", 0) > lim or mon.get("max_req", 0) > lim or rec.get("oversize"):
            site = ""
            text = ""
            if rec.get("oversize"):
                fr = rec["oversize"][-1].get("frames") or []
                if fr:
                    site = fr[0]["file"]
                    text = source_line(fr[0]["file"], fr[0]["line"])
            out.append(dict(kind="alloc", sig=dict(kind="alloc", entry=entry, file=site, line_text=text),
                            detail=dict(peak=mon.get("peak"), max_req=mon.get("max_req"), limit=lim, input_bytes=input_bytes,
                                        oversize=rec.get("oversize"))))
        if residual and oc != "panic":
            d = mon.get("live_after", 0) - mon.get("live_before", 0)
            if d != 0:
                out.append(dict(kind="residual", sig=dict(kind="residual", entry=entry, bytes=d),
                                detail=dict(residual_bytes=d)))

    return out


def miri_site(stderr):
    """first frame of a Miri report that lies in the tree under test"""
    k = re.search(r"error: (Undefined Behavior|memory leaked|unsupported operation)", stderr)
    if k:
        stderr = stderr[k.start():]       # compiler warnings about the tree printed before the report also carry "--> file:line"
    for m in re.finditer(r"(?:-->|at|inside `[^`]*` at) (\S+?):(\d+):\d+", stderr):
        path, line = m.group(1), int(m.group(2))
        if path.startswith(REPO + "/"):
            path = path[len(REPO) + 1:]
        if path.startswith("src/") and os.path.exists(os.path.join(REPO, path)):
            return path, source_line(path, line)
    return "", ""


def sanitizer_site(stderr):
    """first in-repo frame of a sanitizer report"""
    for m in re.finditer(r"#\d+ 0x[0-9a-f]+ in (\S+) (\S+?):(\d+)", stderr):
        path, line = m.group(2), int(m.group(3))
        if "/src/" in path and (path.startswith(REPO + "/") or "/repo/" in path):
            rel = path[path.index("/src/") + 1:]
            return rel, source_line(rel, line)
    return "", ""


# --------------------------------------------------------------------------------------------
# known findings

_KF = None


def known_findings():
    global _KF
    if _KF is None:
        p = os.path.join(VERIF, "known_findings.json")
        try:
            with open(p) as f:
                _KF = json.load(f)
        except OSError:
            _KF = {"findings": []}
    return _KF["findings"]


def match_known(prop, sig):
    """an open finding suppresses a violation iff every key of its signature equals the violation's"""
    for k in known_findings():
        if k.get("status") != "open" or k.get("property") != prop:
            continue
        ks = k.get("signature") or {}
        if ks and all(sig.get(a) == b for a, b in ks.items()):
            return k
    return None


# --------------------------------------------------------------------------------------------
# statistics / evidence


class Stats:
    def __init__(self):
        self.evaluations = 0
        self.nontrivial = set()
        self.nontrivial_n = 0  # distinct-by-construction non-trivial cases that are not kept in the set (fault batches)
        self.classes = collections.Counter()
        self.samples = []
        self.violations = []  # dicts: prop, kind, sig, detail, replay
        self.known = collections.Counter()  # finding id/what -> count
        self.known_sample = {}
        self.inconclusive = collections.Counter()
        self.monitor = collections.Counter()
        self.maxima = {}
        self.notes = collections.Counter()  # observations_not_asserted
        self.variants = collections.Counter()

    def merge(self, o):
        self.evaluations += o.evaluations
        self.nontrivial |= o.nontrivial
        self.nontrivial_n += o.nontrivial_n
        self.classes.update(o.classes)
        for s in o.samples:
            if len(self.samples) < 12:
                self.samples.append(s)
        self.violations.extend(o.violations)
        self.known.update(o.known)
        for k, v in o.known_sample.items():
            self.known_sample.setdefault(k, v)
        self.inconclusive.update(o.inconclusive)
        self.monitor.update(o.monitor)
        for k, v in o.maxima.items():
            if v > self.maxima.get(k, -1):
                self.maxima[k] = v
        self.notes.update(o.notes)
        self.variants.update(o.variants)

    def maximum(self, key, v):
        if v is not None and v > self.maxima.get(key, -1):
            self.maxima[key] = v


def digest(*parts):
    h = hashlib.sha1()
    for p in parts:
        if not isinstance(p, (bytes, bytearray)):
            p = repr(p).encode()
        h.update(p)
        h.update(b"\0")
    return h.hexdigest()[:16]


class ShardCtx:
    """what a property's shard function gets"""

    def __init__(self, prop, tier, seed, index, nshards, variant, scratch):
        self.prop = prop
        self.tier = tier
        self.seed = seed
        self.index = index
        self.nshards = nshards
        self.variant = variant
        self.scratch = scratch
        self.rng = random.Random("%s/%s/%d/%d" % (prop, tier, seed, index))
        self.stats = Stats()
        self._w = None
        self._nfile = 0
        self.replay_budget = 6
        self._failing = []
        self._failing_before = ()
        self._failing_rate = 0.0
        self._frng = random.Random("failing/%s/%s/%d/%d" % (prop, tier, seed, index))

    # -- worker
    @property
    def w(self):
        if self._w is None:
            self._w = Worker(self.variant, self.scratch)
        return self._w

    def failing_calls_first(self, calls, before, rate=0.06):
        """calls: [(verb, args)] expected to fail (damaged or foreign input); before: the verbs under test. From now on a call of one
        of those verbs is, with probability `rate`, preceded by one of the failing calls in the same worker process: state that a
        failed call leaves behind (a thread-local or static buffer, decompressor, cache, position) then meets the call under test,
        whose result is judged as always. The failing calls themselves are not judged here (C17 / C18 do that)."""
        self._failing = list(calls)
        self._failing_before = tuple(before)
        self._failing_rate = rate

    def call(self, verb, *args, input_bytes=0, limit="auto", timeout=None, progress=None, case_cpu_s=None):
        if self._failing and verb in self._failing_before and self._frng.random() < self._failing_rate:
            fv, fa = self._frng.choice(self._failing)
            fr = self.w.call(fv, *fa, limit=alloc_limit(1 << 20))
            if fr.ok and isinstance(fr.value, dict) and fr.value.get("handle") is not None:
                self.w.call("drop", fr.value["handle"])
            self.stats.monitor["failing_call_first:%s:%s" % (fv, fr.outcome.split(":")[0].split("(")[0])] += 1
            self.stats.classes["history:after-a-failed-call"] += 1
        lim = alloc_limit(input_bytes) if limit == "auto" else limit
        rec = self.w.call(verb, *args, limit=lim, timeout=timeout, progress=progress, case_cpu_s=case_cpu_s)
        self.stats.variants[self.variant] += 1
        m = rec.mon
        if m:
            self.stats.maximum("cpu_us", m.get("cpu_us"))
            self.stats.maximum("peak_bytes", m.get("peak"))
            self.stats.maximum("max_request_bytes", m.get("max_req"))
        return rec

    def shared_between_threads(self, lines, what, threads=4, reps=25, files=None):
        """mt.same: the read-only operations `lines` on live handles, answered on one thread and then by `threads` threads sharing the
        objects; every concurrent answer (and a second sequential one) must equal the first. The answers themselves are judged by
        the property's own oracle where the same operations run singly."""
        if not lines:
            return
        if self.variant in ("miri", "memcheck"):
            lines, reps, threads = lines[:12], 2, min(threads, 3)
        sf = self.write("mt-%s.script" % what, ("\n".join(lines) + "\n").encode())
        rec = self.call("mt.same", threads, reps, sf, input_bytes=1 << 20)
        self.check_mon(rec, 1 << 20, residual=False, files=files)
        if not rec.ok:
            return
        v = rec.value
        self.stats.classes["shared-between-threads:%s" % what] += 1
        self.stats.monitor["concurrent_calls"] += v.get("concurrent_calls", 0)
        if v.get("not_shared_because_not_sync"):
            self.note("a type of this tree is not Sync: its operations were left out of the shared-object workload (%s)" % what)
        self.stats.evaluations += v.get("ops", 0)
        if v.get("mismatches"):
            op = lines[v["first"]].split(" ")[0] if 0 <= v.get("first", -1) < len(lines) else "?"
            self.violation("concurrency", dict(kind="concurrency", sub="shared_object_answers_differ", op=op, what=what),
                           dict(mismatches=v["mismatches"], first_line=lines[v["first"]][:200] if 0 <= v.get("first", -1) < len(lines) else None, threads=threads, reps=reps),
                           files=(files or []) + [sf], commands=[dict(verb="mt.same", args=[str(threads), str(reps), sf])])

    # -- files
    def path(self, name):
        return os.path.join(self.scratch, name)

    def write(self, name, data):
        p = self.path(name)
        d = os.path.dirname(p)
        if d and not os.path.isdir(d):
            os.makedirs(d, exist_ok=True)
        with open(p, "wb") as f:
            f.write(data)
        return p

    def read(self, name):
        with open(self.path(name), "rb") as f:
            return f.read()

    # -- accounting
    def case(self, key, nontrivial, classes=(), sample=None):
        """one judged observation (evaluation)"""
        st = self.stats
        st.evaluations += 1
        if nontrivial:
            st.nontrivial.add(key if isinstance(key, str) else digest(key))
        for c in classes:
            st.classes[c] += 1
        if sample is not None and len(st.samples) < 3:
            st.samples.append(sample)

    def note(self, what, n=1):
        self.stats.notes[what] += n

    def inconclusive(self, what):
        self.stats.inconclusive[what] += 1

    def violation(self, kind, sig, detail=None, files=None, commands=None):
        """report a violation; known findings are filtered here"""
        sig = dict(sig)
        sig.setdefault("kind", kind)
        k = match_known(self.prop, sig)
        if k is not None:
            what = k.get("what", json.dumps(k.get("signature")))
            self.stats.known[what] += 1
            return False
        v = dict(prop=self.prop, kind=kind, sig=sig, detail=detail or {}, variant=self.variant, seed=self.seed,
                 shard=self.index, tier=self.tier)
        sk = json.dumps(sig, sort_keys=True)
        same = sum(1 for x in self.stats.violations if json.dumps(x["sig"], sort_keys=True) == sk)
        if same == 0 and self.replay_budget > 0:
            self.replay_budget -= 1
            v["replay"] = save_replay(self.prop, v, files or [], commands or [])
        elif same >= 3:
            self.stats.monitor["violations_deduplicated"] += 1
            return True
        self.stats.violations.append(v)
        return True

    def check_mon(self, rec, input_bytes=0, residual=True, entry=None, files=None, commands=None, allow_panic=False):
        """apply the generic monitors to a record; returns True when clean"""
        clean = True
        for v in monitor_verdicts(rec, input_bytes, residual=residual, entry=entry):
            if "inconclusive" in v:
                self.inconclusive(v["inconclusive"])
                clean = False
                continue
            self.stats.monitor["mon_" + v["kind"]] += 1
            cmds = commands or [dict(verb=rec.get("verb"), args=rec.get("args"), skew=rec.get("skew", 0))]
            self.violation(v["kind"], v["sig"], v["detail"], files=files, commands=cmds)
            clean = False
        return clean

    def close(self):
        if self._w is not None:
            rc, tail = self._w.close()
            self.stats.monitor["worker_restarts"] += self._w.restarts
            self.stats.monitor["commands"] += self._w.commands
            if self.variant == "miri":
                self.stats.monitor["miri_processes"] += 1
                if "error: memory leaked" in tail or "error: Undefined Behavior" in tail:
                    site, text = miri_site(tail)
                    self.violation("sanitizer", dict(kind="sanitizer", entry="exit", what=classify_death(rc, tail), file=site, line_text=text), dict(stderr=tail[-3000:]))
                elif rc not in (0, None) and "error: unsupported operation" in tail:
                    self.inconclusive("miri: unsupported operation at exit")
            if self.variant == "memcheck":
                self.stats.monitor["memcheck_processes"] += 1
                txt = self._w._new_stderr()
                m = MEMCHECK_RE.search(txt)
                if m:
                    site, text = memcheck_site(txt[m.start():])
                    self.violation("sanitizer", dict(kind="sanitizer", entry="exit", what=memcheck_class(m.group(0)), file=site, line_text=text),
                                   dict(stderr=txt[max(0, m.start() - 200):m.start() + 12000]))
            if self.variant == "asan" and ("ERROR: LeakSanitizer" in tail or "ERROR: AddressSanitizer" in tail):
                site, text = sanitizer_site(tail)
                self.violation("sanitizer", dict(kind="sanitizer", entry="exit", what=classify_death(rc, tail), file=site, line_text=text),
                               dict(stderr=tail[-3000:]))
            self._w = None


def _copy_file(src, dst):
    """copy keeping holes: far-offset dat files are sparse (apparent size up to 32 GiB, a few KiB on disk)"""
    st = os.lstat(src)
    if os.path.islink(src):
        os.symlink(os.readlink(src), dst)
    elif st.st_size <= 8 << 20:
        shutil.copyfile(src, dst)
    elif st.st_blocks * 512 <= 64 << 20:
        subprocess.run(["cp", "--sparse=always", src, dst], check=False)
    else:
        return False
    return True


def _copy_tree(src, dst):
    for r, ds, fs in os.walk(src):
        rel = os.path.relpath(r, src)
        os.makedirs(os.path.join(dst, rel), exist_ok=True)
        for d in list(ds):
            if os.path.islink(os.path.join(r, d)):
                os.symlink(os.readlink(os.path.join(r, d)), os.path.join(dst, rel, d))
        for f in fs:
            try:
                _copy_file(os.path.join(r, f), os.path.join(dst, rel, f))
            except OSError:
                pass


def save_replay(prop, v, files, commands):
    d = os.path.join(VERIF, "replays", prop)
    os.makedirs(d, exist_ok=True)
    name = "%s-%s-%s" % (v["kind"], digest(v["sig"])[:8], digest(v["detail"], time.time())[:6])
    rd = os.path.join(d, name)
    os.makedirs(rd, exist_ok=True)
    saved = []
    for f in files:
        try:
            if os.path.isdir(f):
                dst = os.path.join(rd, os.path.basename(f.rstrip("/")))
                _copy_tree(f, dst)
            else:
                dst = os.path.join(rd, os.path.basename(f))
                _copy_file(f, dst)
            saved.append(os.path.basename(dst))
        except OSError:
            pass
    with open(os.path.join(rd, "violation.json"), "w") as f:
        json.dump(dict(v, files=saved, commands=commands), f, indent=1, default=str)
    return rd


# --------------------------------------------------------------------------------------------
# sharded execution


def _run_shard(a):
    (modname, prop, tier, seed, index, nshards, variant, params) = a
    scratch = tempfile.mkdtemp(prefix="physis-verif.%s.%d." % (prop, index), dir=os.environ.get("VERIF_TMP", "/tmp"))
    ctx = ShardCtx(prop, tier, seed, index, nshards, variant, scratch)
    ctx.params = params
    try:
        mod = __import__(modname, fromlist=["shard"])
        try:
            mod.shard(ctx)
        finally:
            ctx.close()
    except Exception:
        tb = traceback.format_exc().strip().split("\n")
        ctx.stats.inconclusive["harness exception: " + " | ".join(x.strip() for x in tb[-5:])] += 1
    finally:
        shutil.rmtree(scratch, ignore_errors=True)
    return ctx.stats


def run_property(modname, prop, tier, seed, plan):
    """plan: list of (variant, nshards, params) stages; returns merged Stats"""
    total = Stats()
    jobs = []
    if os.environ.get("VERIF_COVERAGE"):
        plan = [("cov", n, p) for v, n, p in plan if v == "debug"]
    for variant, nshards, params in plan:
        try:
            build(variant, quiet=False)
        except BuildError as e:
            if variant == "debug":
                raise
            # an auxiliary build (sanitizer, interpreter) that cannot be produced gives no verdict for its stage
            total.inconclusive["stage skipped, variant %s could not be built: %s" % (variant, str(e)[-300:].replace("\n", " | "))] += 1
            continue
        for i in range(nshards):
            jobs.append((modname, prop, tier, seed, i, nshards, variant, params))
    if len(jobs) == 1:
        results = [_run_shard(jobs[0])]
    else:
        with multiprocessing.Pool(min(NCPU, len(jobs))) as pool:
            results = pool.map(_run_shard, jobs, chunksize=1)
    for r in results:
        total.merge(r)
    return total


def finish(prop, level, tier, seed, stats, rule, t0, assumptions=(), exhaustive=None, extra=None):
    """print verdict lines, write evidence, return exit code"""
    viol = stats.violations
    for what, n in sorted(stats.known.items()):
        print("KNOWN-FINDING: property=%s %s (observed %d times)" % (prop, what, n))
    seen = set()
    for v in viol:
        key = json.dumps(v["sig"], sort_keys=True)
        if key in seen:
            continue
        seen.add(key)
        print("VIOLATION property=%s replay=%s" % (prop, v.get("replay", "-")))
        print("  signature: %s" % key)
        d = json.dumps(v.get("detail"), default=str)
        print("  detail: %s" % (d[:1200]))
    inc = sum(stats.inconclusive.values())
    coverage = dict(
        evaluations=stats.evaluations,
        distinct_nontrivial=len(stats.nontrivial) + stats.nontrivial_n,
        rule=rule,
        samples=stats.samples[:8],
        classes=dict(sorted(stats.classes.items())),
        class_count=len(stats.classes),
        monitors=dict(stats.monitor),
        maxima=stats.maxima,
        commands_per_variant=dict(stats.variants),
        inconclusive=inc,
        inconclusive_detail={k[:700]: v for k, v in list(stats.inconclusive.items())[:10]},
        known_findings_seen=dict(stats.known),
        observations_not_asserted=dict(stats.notes),
        distinct_violation_signatures=len(seen),
    )
    if exhaustive is not None:
        coverage["exhaustive"] = exhaustive
    if extra:
        coverage.update(extra)
    ev = dict(
        property_id=prop, tier=tier, seed=seed, level=level, coverage=coverage,
        assumptions=list(assumptions), wall_s=round(time.time() - t0, 2), violations=len(seen),
    )
    evdir = os.path.join(VERIF, "evidence") if not os.environ.get("VERIF_NO_EVIDENCE") else os.path.join(VERIF, ".work", "evidence-scratch")
    os.makedirs(evdir, exist_ok=True)
    with open(os.path.join(evdir, prop + ".json"), "w") as f:
        json.dump(ev, f, indent=1, default=str)
    print("[%s] tier=%s seed=%d evaluations=%d distinct_nontrivial=%d classes=%d violations=%d known=%d inconclusive=%d wall=%.1fs"
          % (prop, tier, seed, stats.evaluations, len(stats.nontrivial) + stats.nontrivial_n, len(stats.classes), len(seen), len(stats.known), inc, time.time() - t0))
    if seen:
        return 1
    if stats.evaluations == 0 or len(stats.nontrivial) + stats.nontrivial_n < 2:
        print("[%s] harness failure: nothing conclusive observed" % prop)
        for k in list(stats.inconclusive)[:3]:
            print("  inconclusive: %s" % k[:1500])
        return 2
    if any(k.startswith("harness exception") for k in stats.inconclusive):
        print("[%s] harness failure: a shard raised an exception" % prop)
        for k in [k for k in stats.inconclusive if k.startswith("harness exception")][:3]:
            print("  %s" % k[:1500])
        return 2
    if inc and inc > max(5, stats.evaluations // 20):
        print("[%s] harness failure: too many inconclusive observations (%d)" % (prop, inc))
        for k in list(stats.inconclusive)[:3]:
            print("  inconclusive: %s" % k[:1500])
        return 2
    return 0
