"""Valid seed files (with auxiliary arguments) for the fault-enumeration properties C17 / C18."""
import os
import struct

from .core import REPO
from .fmt import assets, excel as ex, fiin, havok, mdl, mtrl, shpk, sqpack as sq, tex, userfiles as uf, zipatch as zp
from .props import c05, c06, c08, c14


def res(name):
    with open(os.path.join(REPO, "resources/tests", name), "rb") as f:
        return f.read()


# ------------------------------------------------------------------------------------------- C18


def seeds_mdl(rng):
    out = []
    for i in range(3):
        m = c06.gen_model(rng, 12, version=0x1000005 if i < 2 else 0x1000006)
        for l in m["lods"]:
            for me in l:
                if me["vcount"] > 12 and not me.get("shape_mesh"):
                    pass
        data, info = mdl.build(m)
        if len(data) < 20000:
            out.append(("generated-v%x" % m["version"], data, []))
    # valid models with relations random generation does not produce (a shape on a mesh late in a long index list)
    for label, m in c06.special_models(rng):
        out.append((label, mdl.build(m)[0], []))
    return out


def seeds_mtrl(rng):
    out = []
    for mode in ("legacy+dye", "dt+dye", "none4", "none"):
        m, _, _, _ = c14.gen_material(rng, mode)
        out.append(("material-" + mode, mtrl.build(m), []))
    return out


def seeds_shpk(rng):
    out = []
    for _ in range(2):
        p, nodes, aliases, sels, nn = c14.gen_package(rng)
        data, _ = shpk.build(p, 0)
        out.append(("package", data, ["ids=" + ",".join(str(x) for x in sels[:4])]))
    return out


def seeds_tex(rng):
    out = []
    for fmt, w, h, d in (("bc1", 8, 8, 1), ("bc3", 5, 7, 1), ("bc5", 4, 4, 2), ("bgra", 3, 3, 1)):
        H = h * d
        out.append(("texture-" + fmt, tex.header(rng.getrandbits(32), fmt, w, h, d) + rng.randbytes(tex.payload_len(fmt, w, H)), []))
    # the 16-bit format the parser also accepts (not part of C13's domain, but of C18's)
    hdr = bytearray(tex.header(0, "bgra", 4, 3, 1))
    struct.pack_into("<I", hdr, 4, 0x1440)
    out.append(("texture-b4g4r4a4", bytes(hdr) + rng.randbytes(4 * 3 * 2), []))
    return out


def excel_pair(rng, subrow):
    while True:
        sheet = c05.gen_sheet(rng, 6, False)
        if sheet["subrow"] == subrow and len(sheet["cols"]) <= 12:
            break
    exh = ex.build_exh(sheet["data_offset"], sheet["cols"], sheet["pages"], sheet["langs"], variant=2 if subrow else 1)
    rows = c05.gen_rows(rng, sheet, 0, 0, False)
    exd = ex.build_exd(sheet["data_offset"], sheet["cols"], rows, subrow_sheet=subrow)
    ids = [r for r, _ in rows][:6] + [7]
    return exh, exd, ids


def seeds_sklb(rng):
    out = []
    for ver in (1, 2):
        n = 4
        bones = [("b%d" % i, -1 if i == 0 else rng.randrange(i)) for i in range(n)]
        poses = [[rng.getrandbits(32) for _ in range(12)] for _ in range(n)]
        out.append(("skeleton-v%d" % ver, havok.build_sklb(ver, havok.build_skeleton_tagfile(rng, bones, poses, extra=True), rng), []))
    return out


def seeds_pbd(rng):
    bodies = [101, 201, 301, 401, 9104]
    parent = {101: -1, 201: 101, 301: 101, 401: 201, 9104: -1}
    bones = {b: [(("j_%d_%d" % (b, k)).encode(), [rng.getrandbits(32) for _ in range(12)]) for k in range(rng.randint(0, 3))] for b in bodies}
    return [("deformer", assets.build_pbd(bodies, parent, bones), ["ids=" + ",".join(map(str, bodies + [7]))])]


def seeds_misc(rng):
    """(kind, label, bytes, aux)"""
    out = []
    out.append(("cmp", "scaling-table", assets.build_cmp([[rng.getrandbits(32) for _ in range(14)] for _ in range(3)], tail=b"\0" * 5), []))
    out.append(("tera", "terrain", assets.build_tera([(1, 2), (-3, 4), (0, 0)]), []))
    out.append(("lgb", "empty-lgb", assets.build_empty_lgb(0x3142474C, 0x3150474C, 261, b"PlanLive"), []))
    out.append(("lgb", "sample-lgb", res("empty_planlive.lgb"), []))
    out.append(("lgb", "layers-and-objects", assets.build_lgb_layers(rng, 3, (4, 2, 1))[0], []))
    # staining template: header (4 pad, count, keys, offsets) + entries (5 u16 ends)
    n = 3
    stm = b"\0\0\0\0" + struct.pack("<i", n) + struct.pack("<3H", 1, 2, 3) + struct.pack("<3H", 0, 5, 10)
    stm += b"".join(struct.pack("<5H", 1, 2, 3, 4, 5) for _ in range(n)) + b"\0" * 16
    out.append(("stm", "staining-template", stm, []))
    out.append(("dic", "dictionary", build_dic(), []))
    out.append(("avfx", "effect", build_avfx(), []))
    out.append(("sqdb", "database", sq.sqpack_header(0) + struct.pack("<II", 1024, 0) + b"\0" * 1016 +
                b"".join(struct.pack("<4xI", 128 * i) + struct.pack("<I4x", 64) + struct.pack("<II", i, i + 1) + ("exd/file%d.exd" % i).encode().ljust(240, b"\0") for i in range(3)), []))
    out.append(("uld", "uld-header", b"uldh0100" + struct.pack("<II", 16, 32), []))
    out.append(("sgb", "sgb-header", b"SGB1" + struct.pack("<ii", 100, 1), []))
    out.append(("scd", "scd-header", b"SEDBSSCF" + struct.pack("<IIBHQ", 3, 0, 4, 48, 0) + b"\0" * 4 + struct.pack("<4H5IH2x", 1, 1, 1, 0, 0, 0, 0, 0, 0, 0), []))
    out.append(("hwc", "hw-cursor", bytes(64 * 64 * 4), []))
    out.append(("iwc", "iwc-header", struct.pack("<HH", 2, 3), []))
    out.append(("tmb", "tmb-header", struct.pack("<iii", 0x424C4D54, 12, 0), []))
    out.append(("skp", "skp-header", struct.pack("<i", 0x736B7062) + b"0100", []))
    out.append(("schd", "schd-header", struct.pack("<i", 0x64436853) + b"010" + b"\x01" + struct.pack("<IiII", 0x43425844, 28, 28, 28), []))
    out.append(("phyb", "phyb-header", bytes([1, 0, 0, 0]) + struct.pack("<III", 1, 16, 16), []))
    out.append(("pap", "pap-header", struct.pack("<iihHBiiii", 0x20706170, 0x20001, 1, 1, 0, 0, 26, 26, 26), []))
    return out


def build_dic():
    size = 0x8124 + 3 * 512 + 20 + 20 + 4 + 1024
    b = bytearray(size)
    p = 0x8124 + 3 * 512
    begin = bytearray(0x400)
    struct.pack_into("<H", begin, 2 * 0x141, 1)
    inner = struct.pack("<4H", 0, 2, 0, 0)
    chara = struct.pack("<4H", 0x61, 0x62, 0x63, 0)
    word = struct.pack("<6H", 0x78, 0x79, 0, 0x7A, 0, 0)
    entries = struct.pack("<4I", 0, 0, 0, 0) + struct.pack("<4I", 0, 2, 1, 0) + struct.pack("<4I", 1, 1, 0, 0)
    blocks = [bytes(begin), inner, chara, word, entries]
    base = size - (0x8750 + 0x200)
    offs = []
    data = b""
    for blk in blocks:
        offs.append(base + len(data))
        data += blk
    struct.pack_into("<5I", b, p, *[o for o in offs])
    struct.pack_into("<5I", b, p + 20, *[len(x) for x in blocks])
    cb = p + 44
    struct.pack_into("<I", b, cb + 4 * 0x61, 1)
    return bytes(b) + data


def build_avfx():
    blocks = b"".join([b"reV\0" + struct.pack("<II", 4, 0x20110913), b"PFDb" + struct.pack("<IB3x", 1, 1), b"xPBC" + struct.pack("<If", 4, 1.5), b"sMBZ" + struct.pack("<If", 4, 0.25)])
    return b"XFVA" + struct.pack("<I", 8 + len(blocks)) + blocks


def seeds_index(rng):
    out = []
    for kind in (1, 2):
        paths = ["exd/root.exl", "chara/a/b.mdl", "bg/ex1/x/y.lgb"]
        ents = [((sq.hash1(p) if kind == 1 else sq.hash2(p)), i % 2, 128 * (i + 1), False) for i, p in enumerate(paths)]
        out.append(("index%d" % kind, sq.index_file(kind, ents), ["paths=" + ",".join(paths + ["absent/file.x", "noslash"])]))
    # an index with its folder table (as retail files carry it): several files per folder, several folders; looked up by path
    paths = ["chara/a/b.mdl", "chara/a/c.mdl", "chara/a/d.tex", "bg/ffxiv/x/y.lgb", "bg/ffxiv/x/z.lgb", "exd/root.exl", "exd/item.exh"]
    ents = [(sq.hash1(p), i % 2, 128 * (i + 1), False) for i, p in enumerate(paths)]
    out.append(("index1-with-folder-table", sq.index_file(1, ents, folders=True), ["paths=" + ",".join(paths + ["chara/a/absent.x", "absent/file.x"])]))
    return out


def seeds_dat(rng):
    out = []
    db = sq.DatBuilder()
    offs = []
    e1, _ = sq.standard_entry([b"hello world" * 20, b"second block"], ["dynamic", "raw"])
    offs.append(db.add(e1))
    hdr = rng.randbytes(80)
    e2, _, _ = sq.texture_entry(hdr, [[rng.randbytes(200), b"\0" * 300], [rng.randbytes(64)]], lambda: rng.choice(["raw", "dynamic", "fixed"]))
    offs.append(db.add(e2))
    e3, _, _ = sq.model_entry(0x1000005, rng.randbytes(136), rng.randbytes(300), [(rng.randbytes(160), rng.randbytes(32)), (rng.randbytes(48), b""), (b"", b"")], 1, 1, 2, False, False,
                              lambda d: sq.split(d, [120]), lambda: rng.choice(["raw", "dynamic"]))
    offs.append(db.add(e3))
    data = db.bytes()
    out.append(("dat-three-kinds", data, ["offsets=" + ",".join(map(str, offs + [0, 2048 + 64]))], offs))
    return out


# ------------------------------------------------------------------------------------------- C17


def seeds_cfg(rng):
    out = [("sample-cfg", res("FFXIV.cfg"))]
    for _ in range(2):
        out.append(("generated-cfg", c08.canon_cfg(c08.gen_cfg(rng) or [("A", [("k", "v")])])))
    out.append(("tiny-cfg", b"\r\n<A>\r\nk\tv\r\n\0"))
    return out


def seeds_exl(rng):
    return [("sample-exl", res("test.exl")), ("generated-exl", c08.canon_exl(2, [("Item", 5), ("quest/x", -1), ("a", 0)]))]


def seeds_fiin(rng):
    return [("sample-fiin", res("test.fiin")), ("generated-fiin", fiin.build([(5, b"a.bin", rng.randbytes(20)), (2 ** 31 - 1, b"dir_file.dat", rng.randbytes(20))]))]


def seeds_chardat(rng):
    out = [("sample-" + n, res("chardat/%s.dat" % n)) for n in ("arr", "shadowbringers")]
    vals = {f: rng.randrange(256) for f in uf.CHAR_FIELDS}
    vals.update(race=3, tribe=5, gender=1, enable_highlights=1)
    out.append(("generated-chardat", uf.char_build(vals, 6, 1700000000, b"comment")))
    return out


def seeds_gearsets(rng):
    sets = {0: dict(index=0, name=b"White Mage", unk=0, slots={0: (5269, 2453, (0, 0, 0, 0, 0)), 3: (8395913, 0, (0, 0, 0, 0, 0))}, facewear=0),
            7: dict(index=7, name=b"x" * 46, unk=0, slots={k: (k + 1, 0, (0, 0, 0, 0, 0)) for k in range(14)}, facewear=12345)}
    return [("sample-gearsets", res("gearsets/simple.dat")), ("generated-gearsets", uf.gs_build(sets, current=7))]


def build_log(entries, c=10):
    n = len(entries)
    file_size = c + n
    content_offset = 8 + file_size * 4
    body = b""
    offs = []
    for (ts, filt, chan, msg) in entries:
        offs.append(len(body))
        body += struct.pack("<IBBI", ts, filt, chan, 1) + msg
    hdr = struct.pack("<II", c, file_size) + b"".join(struct.pack("<I", o) for o in offs)
    return hdr.ljust(content_offset, b"\0") + body


def seeds_log(rng):
    return [("generated-log", build_log([(1700000000, 3, 0, b"hello"), (1700000001, 64, 3, "café".encode()), (5, 41, 51, b"")])), ("empty-log", build_log([]))]


PLIST_BOOT = ("--477D80B1_38BC_41d4_8B48_5273ADB89CAC\r\nContent-Type: application/octet-stream\r\nContent-Location: ffxivpatch/2b5cbc63/metainfo/D2023.04.28.0000.0001.http\r\n"
              "X-Patch-Length: 22221335\r\n\r\n22221335\t69674819\t19\t18\t2023.04.28.0000.0001\thttp://patch-dl.ffxiv.com/boot/2b5cbc63/D2023.04.28.0000.0001.patch\r\n"
              "--477D80B1_38BC_41d4_8B48_5273ADB89CAC--\r\n")
PLIST_GAME = ("--477D80B1_38BC_41d4_8B48_5273ADB89CAC\r\nContent-Type: application/octet-stream\r\nContent-Location: ffxivpatch/4e9a232b/metainfo/2023.07.26.0000.0000.http\r\n"
              "X-Patch-Length: 1664916486\r\n\r\n1479062470\t44145529682\t71\t11\t2023.09.15.0000.0000\tsha1\t50000000\t1c66becde2a8cf26a99d0fc7c06f15f8bab2d87c,950725418366c965d824228bf20f0496f81e0b9a\t"
              "http://patch-dl.ffxiv.com/game/4e9a232b/D2023.09.15.0000.0000.patch\r\n61259063\t44145955874\t71\t11\t2023.09.15.0000.0001\tsha1\t50000000\t"
              "88c9bbfe2af4eea7b56384baeeafd59afb47ddeb,095c26e87b4d25505845515c389dd22dd429ea7e\thttp://patch-dl.ffxiv.com/game/4e9a232b/D2023.09.15.0000.0001.patch\r\n"
              "--477D80B1_38BC_41d4_8B48_5273ADB89CAC--\r\n")


def seeds_large(rng):
    """(kind, label, bytes): valid files near the top of the property's size range (about 1 MiB) made of very many small records - what
    a per-record cost that grows with the number of records (time or memory) needs in order to show against the budgets"""
    out = []
    # the shortest possible rows (three-character names from a 62-letter alphabet, one-digit ids, LF): 174 000 distinct names in 1 MiB;
    # a per-row cost that grows with the number of rows is (174 / 115)^2 = 2.3 times dearer than with the 115 000 rows used before,
    # which had come to lie inside the CPU budget on an idle machine (DESIGN 16.5)
    A62 = "0123456789abcdefghijklmnopqrstuvwxyzABCDEFGHIJKLMNOPQRSTUVWXYZ"
    out.append(("exl", "large-exl-174k-rows", ("EXLT,2\n" + "".join("%s%s%s,%d\n" % (A62[i // 3844], A62[i // 62 % 62], A62[i % 62], i % 10) for i in range(174000))).encode()))
    out.append(("cfg", "large-cfg-47k-categories", ("".join("<C%05d>\r\nk%d\tv\r\n\r\n" % (i, i) for i in range(47000))).encode() + b"\0"))
    out.append(("cfg", "large-cfg-one-category-64k-keys", ("<Big>\r\n" + "".join("key%05d\t%d\r\n" % (i, i) for i in range(64000))).encode() + b"\0"))
    row = "1479062470\t44145529682\t71\t11\t2023.09.15.0000.%04d\tsha1\t50000000\t1c66becde2a8cf26a99d0fc7c06f15f8bab2d87c,950725418366c965d824228bf20f0496f81e0b9a\thttp://patch-dl.ffxiv.com/game/4e9a232b/D2023.09.15.0000.%04d.patch\r\n"
    head = PLIST_GAME.split("\r\n\r\n")[0] + "\r\n\r\n"
    out.append(("plist.game", "large-game-list-4500-rows", (head + "".join(row % (i, i) for i in range(4500)) + "--477D80B1_38BC_41d4_8B48_5273ADB89CAC--\r\n").encode()))
    out.append(("fiin", "large-fiin-10k-entries", fiin.build([(i, b"file_%05d.dat" % i, bytes([i % 256]) * 20) for i in range(10000)])))
    out.append(("log", "large-log-20k-entries", build_log([(1700000000 + i, i % 70, i % 5, b"line %d" % i) for i in range(20000)])))
    ops = [dict(op="FHDR", version=3), dict(op="T", platform=0)] + [dict(op="ADIR", name="sqpack/ex%d" % (i % 9 + 1)) for i in range(3000)]
    ops += [dict(op="A", main=0, sub=0, fid=i % 4, off=i % 64, data=bytes([i % 256]) * 128, dele=0) for i in range(2500)] + [dict(op="EOF")]
    out.append(("zp.apply", "large-patch-5500-commands", zp.serialise(ops)))
    return out


def seeds_patch(rng):
    out = []
    ops = [dict(op="FHDR", version=3), dict(op="APLY", option=1, value=0), dict(op="T", platform=0), dict(op="X"), dict(op="I"),
           dict(op="A", main=0, sub=0, fid=0, off=0, data=rng.randbytes(256), dele=1), dict(op="D", main=0, sub=0, fid=0, off=1, n=2), dict(op="E", main=0, sub=0, fid=0, off=4, n=1),
           dict(op="H", fk=b"D", hk=b"V", main=0, sub=0, fid=0, data=rng.randbytes(1024)), dict(op="ADIR", name="sqpack/ex1"),
           dict(op="FA", path="sqpack/ffxiv/0a0000.win32.index", offset=0, chunks=[(b"abc" * 50, True), (rng.randbytes(100), False)]), dict(op="FM", path="sqpack/ex2/x"),
           dict(op="FD", path="sqpack/ffxiv/0a0000.win32.index"), dict(op="DELD", name="sqpack/ex1"), dict(op="EOF")]
    out.append(("patch-all-ops", zp.serialise(ops)))
    out.append(("patch-small", zp.serialise([dict(op="T", platform=0), dict(op="A", main=0, sub=0, fid=0, off=0, data=rng.randbytes(128), dele=0), dict(op="EOF")])))
    out.append(("patch-fhdr2-file", zp.serialise([dict(op="FHDR", version=2), dict(op="T", platform=2), dict(op="FA", path="boot/x.exe", offset=0, chunks=[(b"x" * 200, False)]), dict(op="EOF")])))
    return out


def build_exe(rng, needle="https://launcher.finalfantasyxiv.com", tail="/v620/index.html?rc_lang={0}", where="middle", terminated=True):
    s = (needle + tail).encode("utf-16-be") + (b"\0\0" if terminated else b"")
    pre = rng.randbytes(300) if where != "start" else b""
    post = rng.randbytes(200) if where == "middle" else b""
    return pre + s + post
