"""Re-execute the command stream of a saved violation against the current tree."""
import json, os, shutil, tempfile
from . import core


def run(prop, path):
    vf = os.path.join(path, "violation.json")
    with open(vf) as f:
        v = json.load(f)
    print("replaying %s (%s) signature=%s" % (path, v.get("kind"), json.dumps(v.get("sig"))))
    scratch = tempfile.mkdtemp(prefix="physis-verif.replay.")
    try:
        for name in v.get("files", []):
            src = os.path.join(path, name)
            dst = os.path.join(scratch, name)
            if os.path.isdir(src):
                shutil.copytree(src, dst, symlinks=True)
            else:
                shutil.copyfile(src, dst)
        w = core.Worker(v.get("variant", "debug"), scratch)
        bad = 0
        for c in v.get("commands", []):
            args = []
            for a in c.get("args", []):
                # arguments that were scratch paths are re-rooted into the replay scratch
                b = os.path.basename(str(a))
                if isinstance(a, str) and a.startswith("/") and os.path.exists(os.path.join(scratch, b)):
                    a = os.path.join(scratch, b)
                elif isinstance(a, str) and "/physis-verif." in a:
                    a = os.path.join(scratch, b)
                    if b == "work":
                        os.makedirs(a, exist_ok=True)
                args.append(a)
            rec = w.call(c["verb"], *args, skew=c.get("skew", 0))
            print(json.dumps({k: rec.get(k) for k in ("verb", "outcome", "value", "mon", "panic", "oversize")}, default=str)[:3000])
            if rec.outcome in ("panic",) or str(rec.outcome).startswith("abort"):
                bad += 1
        w.close()
        print("expected/observed detail: %s" % json.dumps(v.get("detail"), default=str)[:3000])
        return 1 if bad else 0
    finally:
        shutil.rmtree(scratch, ignore_errors=True)
