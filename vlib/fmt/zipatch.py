"""Reference ZiPatch wire format (as XIVLauncher reads it) + reference semantics on an
in-memory tree. Independent of the library: abstract ops -> bytes, abstract ops -> model tree."""
import os
import struct
import zlib

MAGIC = b"\x91ZIPATCH\r\n\x1a\n"
PLATFORM_NAMES = {0: "win32", 1: "ps3", 2: "ps4", 3: "ps5", 4: "lys"}


def chunk(tag, body):
    return struct.pack(">I", len(body)) + tag + body + struct.pack(">I", zlib.crc32(tag + body))


def sqpk(cmd, body):
    return chunk(b"SQPK", struct.pack(">I", 5 + len(body)) + cmd + body)


def w_fhdr(version, name=b"DIFF", fields=None):
    if version == 2:
        return chunk(b"FHDR", b"\0\0\x02\0" + name + struct.pack(">I", 1) + b"\0" * 8)
    f = fields or [1, 0, 0, 0, 0, 0, 0, 3, 1, 0, 0, 0, 0]
    return chunk(b"FHDR", b"\0\0\x03\0" + name + b"".join(struct.pack(">I", x) for x in f) + b"\0" * 0xB8)


def w_aply(option=1, value=0):
    return chunk(b"APLY", struct.pack(">I4xI", option, value))


def w_dir(tag, name):
    n = name.encode() + b"\0"
    return chunk(tag, struct.pack(">I", len(n)) + n)


def w_eof():
    return chunk(b"EOF_", b"")


def w_T(platform, region=-1, debug=0, version=0):
    return sqpk(b"T", b"\0\0\0" + struct.pack(">HhHH", platform, region, debug, version) + struct.pack("<QQ", 0, 0) + b"\0" * 96)


def w_X(status=0, version=0, install_size=0):
    return sqpk(b"X", struct.pack(">BBxQ", status, version, install_size))


def w_I(cmd=b"A", synonym=0, main=0, sub=0, fid=0, fhash=0, off=0, num=0):
    return sqpk(b"I", cmd + struct.pack(">Bx", synonym) + struct.pack(">HHI", main, sub, fid) + struct.pack(">QII", fhash, off, num))


def w_A(main, sub, fid, off, data, dele):
    assert len(data) % 128 == 0
    return sqpk(b"A", b"\0\0\0" + struct.pack(">HHIIII", main, sub, fid, off, len(data) // 128, dele) + data)


def w_DE(cmd, main, sub, fid, off, n):
    return sqpk(cmd, b"\0\0\0" + struct.pack(">HHIII4x", main, sub, fid, off, n))


def w_H(file_kind, header_kind, main, sub, fid, data):
    assert len(data) == 1024
    return sqpk(b"H", file_kind + header_kind + b"\0" + struct.pack(">HHI", main, sub, fid) + data)


def patch_block(data, deflate):
    """one patch-embedded file block: 16-byte header + payload, whole block padded to 128"""
    if deflate:
        c = zlib.compressobj(6, zlib.DEFLATED, -15)
        comp = c.compress(data) + c.flush()
        if len(comp) >= 32000:
            deflate = False
    if deflate:
        total = (len(comp) + 143) & 0xFFFFFF80
        return struct.pack("<IIii", 16, 0, len(comp), len(data)) + comp.ljust(total - 16, b"\0")
    total = (len(data) + 143) & 0xFFFFFF80
    return struct.pack("<IIii", 16, 0, 32000, len(data)) + data.ljust(total - 16, b"\0")


def w_F(op, path, offset=0, size=0, expansion=0, blocks=b""):
    p = path.encode() + b"\0"
    return sqpk(b"F", op + b"\0\0" + struct.pack(">QQIH2x", offset, size, len(p), expansion) + p + blocks)


# ---------------------------------------------------------------------------------------------
# abstract ops: dicts with 'op' key; serialise() and Model.apply() interpret the same list


def serialise(ops, with_magic=True):
    out = MAGIC if with_magic else b""
    for o in ops:
        k = o["op"]
        if k == "FHDR":
            out += w_fhdr(o["version"])
        elif k == "APLY":
            out += w_aply(o.get("option", 1), o.get("value", 0))
        elif k == "ADIR":
            out += w_dir(b"ADIR", o["name"])
        elif k == "DELD":
            out += w_dir(b"DELD", o["name"])
        elif k == "EOF":
            out += w_eof()
        elif k == "T":
            out += w_T(o["platform"], o.get("region", -1))
        elif k == "X":
            out += w_X(o.get("status", 0), o.get("version", 0), o.get("install_size", 0))
        elif k == "I":
            out += w_I(o.get("cmd", b"A"), o.get("synonym", 0), o.get("main", 0), o.get("sub", 0), o.get("fid", 0), o.get("hash", 0), o.get("off", 0), o.get("num", 0))
        elif k == "A":
            out += w_A(o["main"], o["sub"], o["fid"], o["off"], o["data"], o["dele"])
        elif k in ("D", "E"):
            out += w_DE(k.encode(), o["main"], o["sub"], o["fid"], o["off"], o["n"])
        elif k == "H":
            out += w_H(o["fk"], o["hk"], o["main"], o["sub"], o["fid"], o["data"])
        elif k == "FA":
            blocks = b"".join(patch_block(c, d) for c, d in o["chunks"])
            out += w_F(b"A", o["path"], o["offset"], sum(len(c) for c, _ in o["chunks"]), o.get("expansion", 0), blocks)
        elif k == "FD":
            out += w_F(b"D", o["path"], 0, 0, o.get("expansion", 0))
        elif k == "FR":
            out += w_F(b"R", o.get("path", ""), 0, 0, o["expansion"])
        elif k == "FM":
            out += w_F(b"M", o["path"], 0, 0, o.get("expansion", 0))
        else:
            raise ValueError(k)
    return out


def exp_folder(sub):
    e = sub >> 8
    return "ffxiv" if e == 0 else "ex%d" % e


def dat_name(platform, main, sub, fid):
    return "sqpack/%s/%02x%04x.%s.dat%d" % (exp_folder(sub), main, sub, PLATFORM_NAMES[platform], fid)


def index_name(platform, main, sub, fid):
    return "sqpack/%s/%02x%04x.%s.index%s" % (exp_folder(sub), main, sub, PLATFORM_NAMES[platform], "" if fid == 0 else str(fid))


class SparseFile:
    """file content as an ordered list of writes (for targets addressed beyond 4 GiB)"""

    def __init__(self):
        self.size = 0
        self.writes = []

    def write(self, off, data):
        if data:
            self.writes.append((off, bytes(data)))
            self.size = max(self.size, off + len(data))

    def read(self, off, n):
        n = max(0, min(n, self.size - off))
        out = bytearray(n)
        for o, d in self.writes:
            lo, hi = max(o, off), min(o + len(d), off + n)
            if lo < hi:
                out[lo - off:hi - off] = d[lo - o:hi - o]
        return bytes(out)

    def extents(self):
        """merged [start, end) ranges that were written"""
        out = []
        for o, e in sorted((o, o + len(d)) for o, d in self.writes):
            if out and o <= out[-1][1]:
                out[-1][1] = max(out[-1][1], e)
            else:
                out.append([o, e])
        return out


class Model:
    """reference semantics on an in-memory tree"""

    def __init__(self, files=None, dirs=None, sparse=False):
        self.sparse = sparse
        self.files = {k: bytearray(v) for k, v in (files or {}).items()}
        self.required_dirs = set()
        for d in (dirs or []):
            while d:
                self.required_dirs.add(d)
                d = os.path.dirname(d)
        self.optional_dirs = set()
        self.lenient_files = set()  # paths whose presence/content is unconstrained (.var/.bk2 after RemoveAll)
        self.lenient_prefixes = set()
        self.platform = 0
        self.touched = set()
        for f in self.files:
            self._need_parents(f)

    def _need_parents(self, path):
        d = os.path.dirname(path)
        while d:
            self.required_dirs.add(d)
            d = os.path.dirname(d)

    def _write(self, path, off, data):
        f = self.files.setdefault(path, SparseFile() if self.sparse else bytearray())
        self.touched.add(path)
        self._need_parents(path)
        if not data:
            return  # seek + empty write does not extend a file
        if isinstance(f, SparseFile):
            f.write(off, data)
            return
        if len(f) < off:
            f.extend(b"\0" * (off - len(f)))
        f[off:off + len(data)] = data
        self._need_parents(path)

    def apply(self, ops):
        for o in ops:
            k = o["op"]
            if k == "T":
                self.platform = o["platform"]
            elif k == "A":
                p = dat_name(self.platform, o["main"], o["sub"], o["fid"])
                self._write(p, o["off"] * 128, o["data"])
                self._write(p, o["off"] * 128 + len(o["data"]), b"\0" * (o["dele"] * 128))
            elif k in ("D", "E"):
                p = dat_name(self.platform, o["main"], o["sub"], o["fid"])
                self._write(p, o["off"] * 128, b"\0" * (o["n"] * 128))
                self._write(p, o["off"] * 128, struct.pack("<5i", 128, 0, 0, o["n"] - 1, 0))
            elif k == "H":
                p = (dat_name if o["fk"] == b"D" else index_name)(self.platform, o["main"], o["sub"], o["fid"])
                self._write(p, 0 if o["hk"] == b"V" else 1024, o["data"])
            elif k == "FA":
                p = o["path"]
                data = b"".join(c for c, _ in o["chunks"])
                if o["offset"] == 0:
                    self.files[p] = SparseFile() if self.sparse else bytearray()
                self._write(p, o["offset"], data)
            elif k == "FD":
                self.touched.add(o["path"])
                if o["path"] in self.files:
                    del self.files[o["path"]]
                    d = os.path.dirname(o["path"])
                    while d:
                        self.optional_dirs.add(d)
                        d = os.path.dirname(d)
            elif k == "FR":
                e = o["expansion"]
                folder = "ffxiv" if e == 0 else "ex%d" % e
                for top in ("sqpack", "movie"):
                    pre = "%s/%s/" % (top, folder)
                    for f in list(self.files):
                        if f.startswith(pre):
                            self.touched.add(f)
                            if top == "movie" and os.path.basename(f) in ("00000.bk2", "00001.bk2", "00002.bk2", "00003.bk2"):
                                continue      # the reference keeps exactly these; so does a reader that never touches movie/
                            if top == "movie" or f.endswith(".var") or f.endswith(".bk2"):
                                self.lenient_files.add(f)
                                del self.files[f]
                            else:
                                del self.files[f]
                    self.lenient_prefixes.add(pre)
                    self.optional_dirs.add(pre.rstrip("/"))
                    for d in list(self.required_dirs):
                        if (d + "/").startswith(pre):
                            self.required_dirs.discard(d)
                            self.optional_dirs.add(d)
                    self.required_dirs.discard(pre.rstrip("/"))
            elif k == "FM":
                d = os.path.dirname(o["path"])
                while d:
                    self.required_dirs.add(d)
                    d = os.path.dirname(d)
                if not o["path"].endswith("/"):
                    # whether the last component itself becomes a directory is a leniency (the reference creates it, the library creates
                    # its parents); with a trailing slash the named directory IS the parent and must exist afterwards
                    self.optional_dirs.add(o["path"])
                else:
                    self.optional_dirs.discard(o["path"].rstrip("/"))
            elif k in ("ADIR", "DELD"):
                d = o["name"].rstrip("/")
                while d:
                    self.optional_dirs.add(d)
                    d = os.path.dirname(d)
            # FHDR, APLY, X, I, EOF: no effect on the tree
        # recompute required dirs of surviving files (a file re-added after RemoveAll needs its parents)
        for f in self.files:
            self._need_parents(f)


def snapshot(root):
    """-> (files {rel: bytes}, dirs set(rel))"""
    files = {}
    dirs = set()
    for r, ds, fs in os.walk(root):
        for d in ds:
            dirs.add(os.path.relpath(os.path.join(r, d), root))
        for f in fs:
            p = os.path.join(r, f)
            if os.path.islink(p):
                files[os.path.relpath(p, root)] = b"<symlink>" + os.readlink(p).encode()
            else:
                with open(p, "rb") as fh:
                    files[os.path.relpath(p, root)] = fh.read()
    return files, dirs


def write_tree(root, files, dirs=()):
    for d in dirs:
        os.makedirs(os.path.join(root, d), exist_ok=True)
    for rel, data in files.items():
        p = os.path.join(root, rel)
        os.makedirs(os.path.dirname(p), exist_ok=True)
        with open(p, "wb") as f:
            f.write(data)


def compare(model, files, dirs):
    """-> list of (kind, detail) differences between the model and an observed snapshot"""
    diffs = []
    for p, exp in model.files.items():
        if p not in files:
            diffs.append(("missing_file", p))
        elif files[p] != bytes(exp):
            got = files[p]
            fd = next((i for i in range(min(len(got), len(exp))) if got[i] != exp[i]), min(len(got), len(exp)))
            diffs.append(("content", "%s: got %d bytes, expected %d, first difference at %d" % (p, len(got), len(exp), fd)))
    for p in files:
        if p not in model.files and p not in model.lenient_files:
            diffs.append(("unexpected_file", p))
    for d in model.required_dirs:
        if d not in dirs and d not in model.optional_dirs:
            diffs.append(("missing_dir", d))
    for d in dirs:
        if d not in model.required_dirs and d not in model.optional_dirs and not any((d + "/").startswith(pre) for pre in model.lenient_prefixes):
            diffs.append(("unexpected_dir", d))
    return diffs
