"""Independent EXH / EXD builders (big-endian, documented layout)."""
import struct

T_STRING, T_BOOL, T_I8, T_U8, T_I16, T_U16, T_I32, T_U32, T_F32, T_I64, T_U64 = 0, 1, 2, 3, 4, 5, 6, 7, 9, 0xA, 0xB
T_PACKED0 = 0x19
ALL_TYPES = [0, 1, 2, 3, 4, 5, 6, 7, 9, 0xA, 0xB] + [0x19 + i for i in range(8)]
SIZE = {0: 4, 1: 1, 2: 1, 3: 1, 4: 2, 5: 2, 6: 4, 7: 4, 9: 4, 0xA: 8, 0xB: 8}
for _i in range(8):
    SIZE[0x19 + _i] = 1
FMT = {2: ">b", 3: ">B", 4: ">h", 5: ">H", 6: ">i", 7: ">I", 0xA: ">q", 0xB: ">Q"}
TNAME = {0: "s", 1: "b", 2: "i8", 3: "u8", 4: "i16", 5: "u16", 6: "i32", 7: "u32", 9: "f32", 0xA: "i64", 0xB: "u64"}
for _i in range(8):
    TNAME[0x19 + _i] = "b"
LANG_CODES = {0: "", 1: "ja", 2: "en", 3: "de", 4: "fr", 5: "chs", 6: "cht", 7: "ko"}


def build_exh(data_offset, columns, pages, languages, variant=1, row_count=0, version=3, lang_width=2):
    """columns: [(type, offset)]; pages: [(start, count)]; languages: [lang ids]"""
    b = b"EXHF" + struct.pack(">HHHHH", version, data_offset, len(columns), len(pages), len(languages))
    b += struct.pack(">HBBH", 0, 0, variant, 0) + struct.pack(">I8x", row_count)
    assert len(b) == 32
    for t, o in columns:
        b += struct.pack(">HH", t, o)
    for s, c in pages:
        b += struct.pack(">II", s, c)
    for l in languages:
        b += bytes([l]) + b"\0" * (lang_width - 1)
    return b


def encode_fixed(data_offset, columns, values, heap_base, heap, fill=0):
    """returns fixed region bytes; string cells append to `heap` (bytearray) and store the offset
    relative to the end of this fixed region (heap_base = distance from the end of this fixed
    region to the start of `heap`)"""
    fixed = bytearray([fill]) * data_offset if fill else bytearray(data_offset)
    # packed bools share bytes: clear those bytes first
    for (t, o), v in zip(columns, values):
        if t >= 0x19 or t == T_BOOL:
            fixed[o] = 0
    for (t, o), v in zip(columns, values):
        if t == T_STRING:
            off = heap_base + len(heap)
            heap += v.encode("latin1") + b"\0"
            struct.pack_into(">I", fixed, o, off)
        elif t == T_BOOL:
            fixed[o] = 1 if v else 0
        elif t >= 0x19:
            if v:
                fixed[o] |= 1 << (t - 0x19)
        elif t == T_F32:
            struct.pack_into(">I", fixed, o, v)  # v = raw bits
        else:
            struct.pack_into(FMT[t], fixed, o, v)
    return bytes(fixed)


def build_exd(data_offset, columns, rows, subrow_sheet=False, version=2, junk=b"", pad_rows=True, index_order=None):
    """rows: [(row_id, [subrow values...])] where each subrow = list of cell values (sub-row ids are 0..n-1,
    or given as (sub_id, values)). Returns bytes."""
    index = []
    data = b""
    base = 32 + 8 * len(rows)
    for rid, subs in rows:
        heap = bytearray()
        if not subrow_sheet:
            assert len(subs) == 1
            fixed = encode_fixed(data_offset, columns, subs[0], 0, heap)
            body = fixed + bytes(heap)
            count = 1
        else:
            n = len(subs)
            stride = data_offset + 2
            total_fixed = n * stride
            body = b""
            for i, sv in enumerate(subs):
                sid, vals = sv if isinstance(sv, tuple) else (i, sv)
                end_of_fixed = i * stride + 2 + data_offset
                fixed = encode_fixed(data_offset, columns, vals, total_fixed - end_of_fixed, heap)
                body += struct.pack(">H", sid) + fixed
            body += bytes(heap)
            count = n
        if pad_rows:
            while (len(body) + 6) % 4:
                body += b"\0"
        index.append(struct.pack(">II", rid, base + len(data)))
        data += struct.pack(">IH", len(body), count) + body
    # the row index need not list the rows in the order their data is stored, nor in ascending id order
    index = b"".join(index[i] for i in (index_order if index_order is not None else range(len(rows))))
    hdr = b"EXDF" + struct.pack(">H2xI", version, len(index)) + struct.pack(">I", len(data)) + b"\0" * 16
    assert len(hdr) == 32
    return hdr + index + data + junk


def exd_filename(name, lang, start):
    if lang == 0:
        return "%s_%d.exd" % (name, start)
    return "%s_%d_%s.exd" % (name, start, LANG_CODES[lang])
