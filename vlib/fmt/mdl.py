"""Independent MDL builder, dump reader, typed reference decoders and an independent MDL header
parser (used by C06, C07, C18). Layout as documented (Lumina / Penumbra / TexTools)."""
import random
import struct

# vertex types / usages
SINGLE3, SINGLE4, BYTE4, BYTEFLOAT4, HALF2, HALF4, USHORT4 = 2, 3, 5, 8, 13, 14, 17
POSITION, BLENDWEIGHTS, BLENDINDICES, NORMAL, UV, TANGENT, BITANGENT, COLOR = 0, 1, 2, 3, 4, 5, 6, 7
TYPE_SIZE = {SINGLE3: 12, SINGLE4: 16, BYTE4: 4, BYTEFLOAT4: 4, HALF2: 4, HALF4: 8, USHORT4: 8}
TYPE_NAME = {2: "Single3", 3: "Single4", 5: "Byte4", 8: "ByteFloat4", 13: "Half2", 14: "Half4", 17: "UnsignedShort4"}
USAGE_NAME = {0: "Position", 1: "BlendWeights", 2: "BlendIndices", 3: "Normal", 4: "UV", 5: "Tangent", 6: "BiTangent", 7: "Color"}
# (usage, type) pairs the reader supports
READER_PAIRS = [(POSITION, SINGLE4), (POSITION, HALF4), (POSITION, SINGLE3), (BLENDWEIGHTS, BYTEFLOAT4), (BLENDWEIGHTS, BYTE4), (BLENDWEIGHTS, USHORT4),
                (BLENDINDICES, BYTE4), (BLENDINDICES, USHORT4), (NORMAL, HALF4), (NORMAL, SINGLE3), (UV, BYTEFLOAT4), (UV, HALF4), (UV, SINGLE4), (UV, HALF2),
                (BITANGENT, BYTEFLOAT4), (TANGENT, BYTEFLOAT4), (COLOR, BYTEFLOAT4)]
# pairs the writer implements
WRITER_PAIRS = [(POSITION, SINGLE4), (POSITION, HALF4), (POSITION, SINGLE3), (BLENDWEIGHTS, BYTEFLOAT4), (BLENDWEIGHTS, BYTE4), (BLENDINDICES, BYTE4), (NORMAL, HALF4),
                (NORMAL, SINGLE3), (UV, HALF4), (UV, SINGLE4), (BITANGENT, BYTEFLOAT4), (COLOR, BYTEFLOAT4)]

VERTEX_FIELDS = [("position", 3), ("uv0", 2), ("uv1", 2), ("normal", 3), ("bitangent", 4), ("color", 4), ("bone_weight", 4)]
VERTEX_SIZE = 92


def f32bits(x):
    return struct.unpack("<I", struct.pack("<f", x))[0]


def bits2f(b):
    return struct.unpack("<f", struct.pack("<I", b))[0]


def half_bits_to_f32_bits(h):
    f = struct.unpack("<e", struct.pack("<H", h))[0]
    if f != f:
        # what the half crate does: keep sign and payload, set the quiet bit
        return ((h & 0x8000) << 16) | 0x7FC00000 | ((h & 0x3FF) << 13)
    return f32bits(f)


BYTE_DIV = [f32bits(b / 255.0) for b in range(256)]
BYTE_TAN = [f32bits(bits2f(f32bits(b * 2.0 / 255.0)) - 1.0) for b in range(256)]


def is_nan_bits(b):
    return (b & 0x7F800000) == 0x7F800000 and (b & 0x7FFFFF) != 0


# ---------------------------------------------------------------------------------------------
# builder


def decl_bytes(elements, junk=None):
    """junk: a random.Random - the slots behind the terminator are not part of the declaration and get arbitrary bytes"""
    b = b""
    for (stream, off, typ, usage, uidx) in elements:
        b += struct.pack("<BBBBB3x", stream, off, typ, usage, uidx)
    b += struct.pack("<BBBBB3x", 0xFF, 0, 0, 0, 0)
    if junk is not None:
        fill = junk.choice([b"\xFF", b"\xCD", None])
        b += (fill * (17 * 8 - len(b))) if fill else bytes(junk.randrange(256) for _ in range(17 * 8 - len(b)))
    return b.ljust(17 * 8, b"\0")


class Strings:
    def __init__(self):
        self.b = b""
        self.off = {}
        self.count = 0

    def add(self, s):
        if s not in self.off:
            self.off[s] = len(self.b)
            self.b += s.encode() + b"\0"
            self.count += 1
        return self.off[s]


def build(m):
    """m: dict(version, lods=[ [mesh,...] x lod_count ], materials=[names], bones=[names], attributes=[names], shapes=[dict(name, per_lod=[[(mesh_pos_in_lod, [(base, repl)...])...] x3])],
    element_ids, bone_tables=[[u16...]], submesh_bone_map=[u16], header scalars, gap bytes ...)
    mesh: dict(elements=[(stream, off, type, usage, uidx)], strides=[..], nstreams, vcount, streams=[bytes x nstreams], indices=[u16], submeshes=[(count, attr_mask, bone_start, bone_count)],
               material, bone_table)
    -> (bytes, info) where info has the field map and the absolute layout"""
    ver = m["version"]
    v6 = ver >= 0x1000006
    S = Strings()
    for n in m.get("attributes", []):
        S.add(n)
    for n in m.get("bones", []):
        S.add(n)
    for n in m.get("materials", []):
        S.add(n)
    for sh in m.get("shapes", []):
        S.add(sh["name"])
    for n in m.get("extra_strings", []):
        S.add(n)
    strings = S.b
    while len(strings) % 4:
        strings += b"\0"
    lods = m["lods"]
    nl = len(lods)
    meshes = [me for l in lods for me in l]
    dj = random.Random(m["decl_junk_seed"]) if m.get("decl_junk_seed") is not None else None
    stack = b"".join(decl_bytes(me["elements"], dj) for me in meshes)
    # vertex / index sections per lod
    lod_info = []
    mesh_recs = []
    submesh_recs = []
    fmap = []
    for li, l in enumerate(lods):
        vbuf = b""
        ibuf = b""
        start = 0
        if m.get("stream_shuffle_seed") is not None:
            # every stream carries its own offset into the LOD's vertex section: lay the (mesh, stream) runs out in a
            # shuffled order with unused bytes between them
            lr = random.Random(m["stream_shuffle_seed"] * 7 + li)
            runs = [(mi, s) for mi, me in enumerate(l) for s in range(me["nstreams"])]
            lr.shuffle(runs)
            for me in l:
                me["_offs"] = [0, 0, 0]
            for (mi, s) in runs:
                me = l[mi]
                assert len(me["streams"][s]) == me["vcount"] * me["strides"][s]
                vbuf += bytes(lr.randrange(256) for _ in range(lr.choice([0, 0, 1, 3, 4, 16])))
                me["_offs"][s] = len(vbuf)
                vbuf += me["streams"][s]
        for me in l:
            if m.get("stream_shuffle_seed") is None and me.get("alias_of") is not None:
                # this mesh addresses the very same bytes as an earlier mesh of the LOD (equal stream offsets, strides and count)
                me["_offs"] = list(l[me["alias_of"]]["_offs"])
            elif m.get("stream_shuffle_seed") is None:
                offs = [0, 0, 0]
                for s in range(me["nstreams"]):
                    offs[s] = len(vbuf)
                    assert len(me["streams"][s]) == me["vcount"] * me["strides"][s]
                    vbuf += me["streams"][s]
                me["_offs"] = offs
            if m.get("stream_shuffle_seed") is not None and me is not l[0] and not m.get("packed_indices"):
                # unused indices between the index runs of the meshes (each mesh carries its own start index; the first mesh
                # of a LOD keeps start index 0, the only position shapes are generated for - see ASSUMPTIONS of C06)
                junk = random.Random(m["stream_shuffle_seed"] * 11 + li * 5 + len(ibuf)).choice([0, 0, 1, 5])
                ibuf += b"".join(struct.pack("<H", 0xEEEE) for _ in range(junk))
                start += junk
            me["_start_index"] = start
            me["_submesh_index"] = len(submesh_recs)
            so = start
            for (cnt, mask, bs, bc) in me["submeshes"]:
                submesh_recs.append((so, cnt, mask, bs, bc))
                so += cnt
            ibuf += b"".join(struct.pack("<H", i) for i in me["indices"])
            start += len(me["indices"])
        ipad = (-len(ibuf)) % 16
        if ipad == 0:
            ipad = 16
        ibuf_p = ibuf + b"\0" * ipad
        lod_info.append(dict(vbuf=vbuf, ibuf=ibuf_p, isize_raw=len(ibuf)))
    shapes = m.get("shapes", [])
    shape_recs = []
    shape_meshes = []
    shape_values = []
    for sh in shapes:
        starts = [0, 0, 0]
        counts = [0, 0, 0]
        for li in range(3):
            ent = sh["per_lod"][li] if li < len(sh["per_lod"]) else []
            starts[li] = len(shape_meshes)
            counts[li] = len(ent)
            for (mesh_pos, vals) in ent:
                me = lods[li][mesh_pos]
                shape_meshes.append((me["_start_index"], len(vals), len(shape_values)))
                shape_values += list(vals)
            if not ent:
                starts[li] = 0
        shape_recs.append((S.off[sh["name"]], starts, counts))
    bone_tables = m.get("bone_tables", [])
    bmap = m.get("submesh_bone_map", [])
    pad_amount = m.get("padding", 0)
    bones = m.get("bones", [])
    element_ids = m.get("element_ids", [])
    hs = m.get("header", {})
    # runtime block
    pre = struct.pack("<H2xI", S.count, len(strings)) + strings
    mh = struct.pack("<f9H", hs.get("radius", 1.5), len(meshes), len(m.get("attributes", [])), len(submesh_recs), len(m.get("materials", [])), len(bones), len(bone_tables),
                     len(shape_recs), len(shape_meshes), len(shape_values))
    tsm = m.get("terrain_shadow_meshes", [])       # 20-byte records, opaque to the public API but part of the table grammar
    tss = m.get("terrain_shadow_submeshes", [])    # 12-byte records
    assert all(len(r) == 20 for r in tsm) and all(len(r) == 12 for r in tss)
    mh += struct.pack("<BBHBB", nl, hs.get("flags1", 1), len(element_ids), len(tsm), hs.get("flags2", 0))
    mh += struct.pack("<ffHHBBBBHHH6x", hs.get("model_clip", 0.0), hs.get("shadow_clip", 0.0), hs.get("unknown4", 0), len(tss), hs.get("unknown5", 0), hs.get("bg_change", 0),
                      hs.get("bg_crest", 0), hs.get("unknown6", 0), hs.get("unknown7", 0), hs.get("unknown8", 0), hs.get("unknown9", 0))
    assert len(mh) == 56
    eids = b"".join(struct.pack("<II3f3f", *e) for e in element_ids)
    if v6:
        bt = b""
        for t in bone_tables:
            bt += struct.pack("<2xH", len(t)) + b"".join(struct.pack("<H", x) for x in t) + (b"\0\0" if len(t) % 2 == 0 else b"")
    else:
        bt = b"".join(struct.pack("<64HB3x", *(list(t) + [0] * (64 - len(t))), len(t)) for t in bone_tables)
    post_fixed_len = None
    # sizes needed to compute offsets
    def post_bytes():
        b = b""
        for me in meshes:
            b += struct.pack("<H2xIHHHHI3I3BB", me["vcount"], len(me["indices"]), me.get("material", 0), me["_submesh_index"], len(me["submeshes"]), me.get("bone_table", 0),
                             me["_start_index"], *me["_offs"], *(list(me["strides"]) + [me.get("unused_stride", 0)] * (3 - len(me["strides"]))), me["nstreams"])
        b += b"".join(struct.pack("<I", S.off[n]) for n in m.get("attributes", []))
        b += b"".join(tsm)
        b += b"".join(struct.pack("<IIIHH", *r) for r in submesh_recs)
        b += b"".join(tss)
        b += b"".join(struct.pack("<I", S.off[n]) for n in m.get("materials", []))
        b += b"".join(struct.pack("<I", S.off[n]) for n in bones)
        b += bt
        b += b"".join(struct.pack("<I3H3H", r[0], *r[1], *r[2]) for r in shape_recs)
        b += b"".join(struct.pack("<III", *r) for r in shape_meshes)
        b += b"".join(struct.pack("<HH", *r) for r in shape_values)
        b += (struct.pack("<H", len(bmap) * 2) if v6 else struct.pack("<I", len(bmap) * 2)) + b"".join(struct.pack("<H", x) for x in bmap)
        b += struct.pack("<B", pad_amount) + b"\0" * pad_amount
        bb = m.get("bounding_boxes") or [float(i) for i in range(32)]
        b += struct.pack("<32f", *bb)
        for i in range(len(bones)):
            b += struct.pack("<8f", *[float(i + k) for k in range(8)])
        return b

    post = post_bytes()
    rsize = len(pre) + 56 + len(eids) + 180 + len(post)
    data_off = 0x44 + len(stack) + rsize
    gap = m.get("gap", 0)
    pos = data_off + gap
    lodrecs = b""
    voffs, ioffs, vsizes, isizes = [0] * 3, [0] * 3, [0] * 3, [0] * 3
    mi = 0
    for li in range(3):
        if li < nl:
            L = lod_info[li]
            voffs[li] = pos
            vsizes[li] = len(L["vbuf"])
            pos += len(L["vbuf"])
            ioffs[li] = pos
            isizes[li] = len(L["ibuf"])
            pos += len(L["ibuf"])
            # the LOD record repeats the section offsets of the file header; a reader goes by the file header, so the copies may be stale
            jv, ji = (m["lodrec_junk"][li] if m.get("lodrec_junk") else (voffs[li], ioffs[li]))
            jv = voffs[li] if jv is None else jv
            lodrecs += struct.pack("<HHffHHHHHHHHIII4xIIII", mi, len(lods[li]), 0.0, 0.0, 0, 0, 0, 0, 0, 0, 0, 0, 0, ioffs[li], 0, vsizes[li], isizes[li], jv, ji)
            mi += len(lods[li])
        else:
            lodrecs += struct.pack("<HHffHHHHHHHHIII4xIIII", 0, 0, 0.0, 0.0, 0, 0, 0, 0, 0, 0, 0, 0, 0, 0, 0, 0, 0, 0, 0)
    fh = struct.pack("<IIIHH3I3I3I3IBBBx", ver, len(stack), rsize, len(meshes), len(m.get("materials", [])), *voffs, *ioffs, *vsizes, *isizes, nl,
                     1 if hs.get("streaming") else 0, 0)
    body = fh + stack + pre + mh + eids + lodrecs + post + b"\0" * gap
    for li in range(nl):
        body += lod_info[li]["vbuf"] + lod_info[li]["ibuf"]
    info = dict(voffs=voffs, ioffs=ioffs, vsizes=vsizes, isizes=isizes, data_off=data_off, rsize=rsize, stack=len(stack), strings_off=0x44 + len(stack) + 8,
                header_off=0x44 + len(stack) + len(pre), lods_off=0x44 + len(stack) + len(pre) + 56 + len(eids), meshes_off=0x44 + len(stack) + len(pre) + 56 + len(eids) + 180,
                nmeshes=len(meshes), total=len(body))
    return body, info


# ---------------------------------------------------------------------------------------------
# reference decoders: accept sets per vertex component


def decode_element(usage, vtype, raw):
    """-> dict field -> list of accept sets (each a set of f32 bit patterns / ints, or ('approx', value, tol)); absent fields keep defaults"""
    out = {}
    if vtype in (SINGLE3, SINGLE4):
        n = 3 if vtype == SINGLE3 else 4
        comps = [{b} for b in struct.unpack_from("<%dI" % n, raw, 0)]
    elif vtype in (HALF2, HALF4):
        n = 2 if vtype == HALF2 else 4
        comps = [{half_bits_to_f32_bits(h)} for h in struct.unpack_from("<%dH" % n, raw, 0)]
    elif vtype == BYTEFLOAT4:
        comps = [("approx", b / 255.0, 1.3e-7) for b in raw[:4]]
    elif vtype == BYTE4:
        comps = list(raw[:4])
    elif vtype == USHORT4:
        comps = list(struct.unpack_from("<4H", raw, 0))
    if usage == POSITION:
        out["position"] = comps[:3]
    elif usage == NORMAL:
        out["normal"] = comps[:3]
    elif usage == COLOR:
        out["color"] = comps[:4]
    elif usage == UV:
        out["uv0"] = comps[:2]
        if len(comps) >= 4:
            out["uv1"] = comps[2:4]
    elif usage == BLENDWEIGHTS:
        if vtype == BYTEFLOAT4:
            out["bone_weight"] = comps
        elif vtype == BYTE4:
            # conventions disagree: raw byte, byte/255, 2*byte/255-1 (sign component either)
            out["bone_weight"] = [("any", [("approx", float(b), 0), ("approx", b / 255.0, 1.3e-7), ("approx", 2 * b / 255.0 - 1, 3e-7), ("approx", 1.0, 0), ("approx", -1.0, 0)]) for b in comps]
        else:
            out["bone_weight"] = [("any", [("approx", float(v), 0), ("approx", v / 65535.0, 1.3e-7)]) for v in comps]
    elif usage == BLENDINDICES:
        if vtype == BYTE4:
            out["bone_id"] = [{b} for b in comps]
        else:
            out["bone_id"] = [{v & 0xFF, min(v, 255)} for v in comps]
    elif usage == BITANGENT:
        bs = raw[:4]
        out["bitangent"] = [("any", [("approx", b / 255.0, 1.3e-7), ("approx", 2 * b / 255.0 - 1, 3e-7)]) for b in bs[:3]] + \
                           [("any", [("approx", bs[3] / 255.0, 1.3e-7), ("approx", 2 * bs[3] / 255.0 - 1, 3e-7), ("approx", 1.0, 0), ("approx", -1.0, 0)])]
    elif usage == TANGENT:
        pass  # no field in the public vertex
    return out


def comp_ok(got_bits, acc):
    """got_bits: f32 bit pattern (or int for bone ids)"""
    if isinstance(acc, set):
        if got_bits in acc:
            return True
        return any(is_nan_bits(a) for a in acc) and is_nan_bits(got_bits)
    kind = acc[0]
    if kind == "approx":
        g = bits2f(got_bits)
        return g == g and abs(g - acc[1]) <= acc[2] + 1e-12
    if kind == "any":
        return any(comp_ok(got_bits, a) for a in acc[1])
    return False


def primary_vertex_record(elements, streams, strides, k):
    """the 92-byte dump record under the reader's own (primary) decoding; used as a fast path only"""
    f = [0] * 22
    bone = [0, 0, 0, 0]
    for (stream, off, vtype, usage, _u) in elements:
        raw = streams[stream][strides[stream] * k + off:strides[stream] * k + off + TYPE_SIZE[vtype]]
        if vtype in (SINGLE3, SINGLE4):
            c = list(struct.unpack_from("<%dI" % (3 if vtype == SINGLE3 else 4), raw, 0))
        elif vtype in (HALF2, HALF4):
            c = [half_bits_to_f32_bits(h) for h in struct.unpack_from("<%dH" % (2 if vtype == HALF2 else 4), raw, 0)]
        elif vtype == BYTEFLOAT4:
            c = [BYTE_DIV[b] for b in raw[:4]]
        else:
            c = None
        if usage == POSITION:
            f[0:3] = c[:3]
        elif usage == NORMAL:
            f[7:10] = c[:3]
        elif usage == COLOR:
            f[14:18] = c[:4]
        elif usage == UV:
            f[3:5] = c[:2]
            if len(c) >= 4:
                f[5:7] = c[2:4]
        elif usage == BLENDWEIGHTS:
            if vtype == BYTEFLOAT4:
                f[18:22] = c
            elif vtype == BYTE4:
                t = [BYTE_TAN[b] for b in raw[:4]]
                t[3] = f32bits(1.0) if raw[3] == 255 else f32bits(-1.0)
                f[18:22] = t
            else:
                f[18:22] = [f32bits(float(v)) for v in struct.unpack_from("<4H", raw, 0)]
        elif usage == BLENDINDICES:
            bone = list(raw[:4]) if vtype == BYTE4 else [v & 0xFF for v in struct.unpack_from("<4H", raw, 0)]
        elif usage == BITANGENT:
            t = [BYTE_TAN[b] for b in raw[:4]]
            t[3] = f32bits(1.0) if raw[3] == 255 else f32bits(-1.0)
            f[10:14] = t
    return struct.pack("<22I", *f) + bytes(bone)


def check_vertex(rec, elements, streams, strides, k):
    """slow path: component-wise accept-set check of one 92-byte dump record; -> list of bad fields"""
    got = struct.unpack_from("<22I", rec, 0)
    gb = rec[88:92]
    exp = {}
    for (stream, off, vtype, usage, _u) in elements:
        raw = streams[stream][strides[stream] * k + off:strides[stream] * k + off + TYPE_SIZE[vtype]]
        exp.update(decode_element(usage, vtype, raw))
    bad = []
    pos = 0
    for name, n in VERTEX_FIELDS:
        acc = exp.get(name)
        for c in range(n):
            g = got[pos + c]
            if acc is None or c >= len(acc):
                if g != 0:
                    bad.append("%s[%d] default" % (name, c))
            elif not comp_ok(g, acc[c]):
                bad.append("%s[%d]" % (name, c))
        pos += n
    acc = exp.get("bone_id")
    for c in range(4):
        if acc is None:
            if gb[c] != 0:
                bad.append("bone_id[%d] default" % c)
        elif gb[c] not in acc[c]:
            bad.append("bone_id[%d]" % c)
    return bad


# ---------------------------------------------------------------------------------------------
# dump reader


def parse_dump(b):
    assert b[:4] == b"MDLD", "bad dump"
    p = 4

    def u32():
        nonlocal p
        v = struct.unpack_from("<I", b, p)[0]
        p += 4
        return v

    def s():
        nonlocal p
        n = u32()
        v = b[p:p + n]
        p += n
        return v.decode("latin1")

    lods = []
    for _ in range(u32()):
        parts = []
        for _ in range(u32()):
            mat = struct.unpack_from("<H", b, p)[0]
            p += 4
            nv = u32()
            verts = b[p:p + VERTEX_SIZE * nv]
            p += VERTEX_SIZE * nv
            ni = u32()
            indices = list(struct.unpack_from("<%dH" % ni, b, p))
            p += 2 * ni
            subs = []
            for _ in range(u32()):
                c = u32(); o = u32()
                subs.append((c, o))
            shapes = []
            for _ in range(u32()):
                name = s()
                nm = u32()
                morph = b[p:p + 12 * nm]
                p += 12 * nm
                shapes.append((name, nm, morph))
            streams = []
            for _ in range(u32()):
                stride = u32(); ln = u32()
                streams.append((stride, b[p:p + ln]))
                p += ln
            parts.append(dict(material=mat, nverts=nv, verts=verts, indices=indices, submeshes=subs, shapes=shapes, streams=streams))
        lods.append(parts)
    bones = [s() for _ in range(u32())]
    mats = [s() for _ in range(u32())]
    assert p == len(b), "trailing bytes in dump"
    return dict(lods=lods, bones=bones, materials=mats)


def pack_vertex(position=(0, 0, 0), uv0=(0, 0), uv1=(0, 0), normal=(0, 0, 0), bitangent=(0, 0, 0, 0), color=(0, 0, 0, 0), bone_weight=(0, 0, 0, 0), bone_id=(0, 0, 0, 0)):
    """all float components given as f32 BIT PATTERNS"""
    return struct.pack("<22I", *position, *uv0, *uv1, *normal, *bitangent, *color, *bone_weight) + bytes(bone_id)


# ---------------------------------------------------------------------------------------------
# independent parser of written files (C07 self-consistency)


def parse_file(b):
    """-> dict with file header, lod records, mesh records, submeshes, counts; raises ValueError when the
    buffer cannot be walked (itself a finding for a file the library wrote)"""
    if len(b) < 0x44:
        raise ValueError("shorter than a file header")
    f = struct.unpack_from("<IIIHH3I3I3I3IBBBx", b, 0)
    fh = dict(version=f[0], stack_size=f[1], runtime_size=f[2], vdecl=f[3], materials=f[4], vertex_offsets=list(f[5:8]), index_offsets=list(f[8:11]),
              vertex_sizes=list(f[11:14]), index_sizes=list(f[14:17]), lod_count=f[17], streaming=f[18], edge=f[19])
    v6 = fh["version"] >= 0x1000006
    p = 0x44
    decls = []
    for _ in range(fh["vdecl"]):
        els = []
        for k in range(17):
            e = struct.unpack_from("<BBBBB3x", b, p + 8 * k)
            if e[0] == 0xFF:
                break
            els.append(e)
        decls.append(els)
        p += 136
    stack_end = p
    sc, ss = struct.unpack_from("<H2xI", b, p)
    p += 8
    strings = b[p:p + ss]
    p += ss
    hdr_off = p
    h = struct.unpack_from("<f9H", b, p)
    counts = dict(zip(["radius", "mesh", "attribute", "submesh", "material", "bone", "bone_table", "shape", "shape_mesh", "shape_value"], h))
    p += 22
    lod_count, flags1, eid_count, tsm, flags2 = struct.unpack_from("<BBHBB", b, p)
    p += 6
    rest = struct.unpack_from("<ffHHBBBBHHH6x", b, p)
    p += 28
    tss = rest[3]
    p += 32 * eid_count
    lods = []
    for i in range(3):
        r = struct.unpack_from("<HHffHHHHHHHHIII4xIIII", b, p)
        lods.append(dict(mesh_index=r[0], mesh_count=r[1], edge_size=r[12], edge_off=r[13], polygon=r[14], vertex_buffer_size=r[15], index_buffer_size=r[16],
                         vertex_data_offset=r[17], index_data_offset=r[18]))
        p += 60
    meshes = []
    for i in range(counts["mesh"]):
        r = struct.unpack_from("<H2xIHHHHI3I3BB", b, p)
        meshes.append(dict(vertex_count=r[0], index_count=r[1], material=r[2], submesh_index=r[3], submesh_count=r[4], bone_table=r[5], start_index=r[6],
                           offsets=list(r[7:10]), strides=list(r[10:13]), stream_count=r[13]))
        p += 36
    p += 4 * counts["attribute"]
    p += 20 * tsm
    submeshes = []
    for i in range(counts["submesh"]):
        r = struct.unpack_from("<IIIHH", b, p)
        submeshes.append(dict(index_offset=r[0], index_count=r[1], mask=r[2], bone_start=r[3], bone_count=r[4]))
        p += 16
    p += 12 * tss
    mat_off = struct.unpack_from("<%dI" % counts["material"], b, p); p += 4 * counts["material"]
    bone_off = struct.unpack_from("<%dI" % counts["bone"], b, p); p += 4 * counts["bone"]
    if v6:
        for _ in range(counts["bone_table"]):
            n = struct.unpack_from("<2xH", b, p)[0]
            p += 4 + 2 * n + (2 if n % 2 == 0 else 0)
    else:
        p += 132 * counts["bone_table"]
    shapes = []
    for _ in range(counts["shape"]):
        r = struct.unpack_from("<I3H3H", b, p)
        shapes.append(dict(string_offset=r[0], start=list(r[1:4]), count=list(r[4:7])))
        p += 16
    shape_meshes = []
    for _ in range(counts["shape_mesh"]):
        shape_meshes.append(struct.unpack_from("<III", b, p)); p += 12
    shape_values = []
    for _ in range(counts["shape_value"]):
        shape_values.append(struct.unpack_from("<HH", b, p)); p += 4
    if v6:
        n = struct.unpack_from("<H", b, p)[0]; p += 2
    else:
        n = struct.unpack_from("<I", b, p)[0]; p += 4
    p += n // 2 * 2
    pad = b[p]
    p += 1 + pad
    p += 4 * 32 + 32 * counts["bone"]
    runtime_end = p

    def cstr(off):
        e = strings.find(b"\0", off)
        return strings[off:e if e >= 0 else None].decode("latin1")

    return dict(fh=fh, decls=decls, counts=counts, lod_count=lod_count, lods=lods, meshes=meshes, submeshes=submeshes, shapes=shapes, shape_meshes=shape_meshes,
                shape_values=shape_values, stack_end=stack_end, runtime_end=runtime_end, materials=[cstr(o) for o in mat_off], bones=[cstr(o) for o in bone_off],
                strings=strings, length=len(b))
