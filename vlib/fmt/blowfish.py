"""Reference Blowfish: P-array and S-boxes computed from the hexadecimal digits of pi
(Machin's formula on big integers), 16-round Feistel network, standard key schedule.
Self-checked against published ECB vectors at import time."""
import struct

M = 0xFFFFFFFF


def pi_hex_words(nwords):
    digits = nwords * 8 + 16
    bits = digits * 4 + 64
    one = 1 << bits

    def arctan_inv(x):
        total = term = one // x
        x2 = x * x
        n = 3
        sign = -1
        while term:
            term //= x2
            total += sign * (term // n)
            sign = -sign
            n += 2
        return total

    pi = 4 * (4 * arctan_inv(5) - arctan_inv(239))
    frac = pi - 3 * one
    out = []
    for _ in range(nwords):
        frac <<= 32
        out.append(frac >> bits)
        frac &= one - 1
    return out


_w = pi_hex_words(18 + 1024)
P0 = _w[:18]
S0 = [_w[18 + 256 * i:18 + 256 * (i + 1)] for i in range(4)]


class BF:
    def __init__(self, key):
        self.P = list(P0)
        self.S = [list(x) for x in S0]
        j = 0
        for i in range(18):
            d = 0
            for _ in range(4):
                d = ((d << 8) | key[j]) & M
                j = (j + 1) % len(key)
            self.P[i] ^= d
        l = r = 0
        for i in range(0, 18, 2):
            l, r = self.enc(l, r)
            self.P[i] = l
            self.P[i + 1] = r
        for b in range(4):
            for i in range(0, 256, 2):
                l, r = self.enc(l, r)
                self.S[b][i] = l
                self.S[b][i + 1] = r

    def F(self, x):
        S = self.S
        return ((((S[0][x >> 24] + S[1][(x >> 16) & 255]) & M) ^ S[2][(x >> 8) & 255]) + S[3][x & 255]) & M

    def enc(self, l, r):
        P = self.P
        for i in range(16):
            l ^= P[i]
            r ^= self.F(l)
            l, r = r, l
        l, r = r, l
        r ^= P[16]
        l ^= P[17]
        return l, r

    def dec(self, l, r):
        P = self.P
        for i in range(17, 1, -1):
            l ^= P[i]
            r ^= self.F(l)
            l, r = r, l
        l, r = r, l
        r ^= P[1]
        l ^= P[0]
        return l, r


# Published ECB vectors (Eric Young's set): key, plaintext, ciphertext (big-endian words)
VECTORS = [
    ("0000000000000000", "0000000000000000", "4EF997456198DD78"),
    ("FFFFFFFFFFFFFFFF", "FFFFFFFFFFFFFFFF", "51866FD5B85ECB8A"),
    ("3000000000000000", "1000000000000001", "7D856F9A613063F2"),
    ("1111111111111111", "1111111111111111", "2466DD878B963C9D"),
    ("0123456789ABCDEF", "1111111111111111", "61F9C3802281B096"),
    ("1111111111111111", "0123456789ABCDEF", "7D0CC630AFDA1EC7"),
    ("FEDCBA9876543210", "0123456789ABCDEF", "0ACEAB0FC6A0A28D"),
    ("7CA110454A1A6E57", "01A1D6D039776742", "59C68245EB05282B"),
    ("0131D9619DC1376E", "5CD54CA83DEF57DA", "B1B8CC0B250F09A0"),
    ("07A1133E4A0B2686", "0248D43806F67172", "1730E5778BEA1DA4"),
    ("3849674C2602319E", "51454B582DDF440A", "A25E7856CF2651EB"),
    ("04B915BA43FEB5B6", "42FD443059577FA2", "353882B109CE8F1A"),
    ("0113B970FD34F2CE", "059B5E0851CF143A", "48F4D0884C379918"),
    ("0170F175468FB5E6", "0756D8E0774761D2", "432193B78951FC98"),
    ("43297FAD38E373FE", "762514B829BF486A", "13F04154D69D1AE5"),
    ("07A7137045DA2A16", "3BDD119049372802", "2EEDDA93FFD39C79"),
]


def selfcheck():
    assert P0[0] == 0x243F6A88 and P0[17] == 0x8979FB1B and S0[0][0] == 0xD1310BA6 and S0[3][255] == 0x3AC372E6
    for k, p, c in VECTORS:
        b = BF(bytes.fromhex(k))
        l, r = struct.unpack(">II", bytes.fromhex(p))
        el, er = b.enc(l, r)
        assert struct.pack(">II", el, er) == bytes.fromhex(c), (k, p, c)
        assert b.dec(el, er) == (l, r)


selfcheck()


def encrypt_le(key8, msg):
    """what the property defines: zero-pad to 8, per block two little-endian words through Blowfish"""
    b = BF(key8)
    pm = msg + b"\0" * ((-len(msg)) % 8)
    out = bytearray()
    for i in range(0, len(pm), 8):
        l, r = struct.unpack_from("<II", pm, i)
        l, r = b.enc(l, r)
        out += struct.pack("<II", l, r)
    return bytes(out), pm
