"""Independent Havok binary tag-file writer + SKLB container builder."""
import struct

T_BYTE, T_INT, T_REAL, T_VEC4, T_VEC8, T_VEC12, T_VEC16, T_OBJECT, T_STRUCT, T_STRING = 1, 2, 3, 4, 5, 6, 7, 8, 9, 10
ARRAY, TUPLE = 0x10, 0x20


class W:
    def __init__(self, long_ints=False):
        self.b = bytearray()
        self.strs = {"string": 0, "": 1}
        self.n = 2
        self.long_ints = long_ints
        self.literal_repeat = None     # a random.Random enables literal repeats

    def pint(self, v, pad=0):
        neg = 1 if v < 0 else 0
        a = abs(v)
        first = ((a & 0x3F) << 1) | neg
        a >>= 6
        if a:
            first |= 0x80
        self.b.append(first)
        while a:
            x = a & 0x7F
            a >>= 7
            if a:
                x |= 0x80
            self.b.append(x)

    def string(self, t, allow_backref=True):
        # a writer may store a string it has stored before literally again (the reader then remembers it a second time)
        if allow_backref and t in self.strs and self.literal_repeat is not None and t not in ("string", "") and self.literal_repeat.random() < 0.25:
            allow_backref = False
        if t in self.strs and allow_backref:
            self.pint(-self.strs[t])
            return
        e = t.encode()
        self.pint(len(e))
        self.b += e
        if t not in self.strs:
            self.strs[t] = self.n
        self.n += 1

    def bits(self, flags):
        n = (len(flags) + 7) // 8
        v = 0
        for i, f in enumerate(flags):
            if f:
                v |= 1 << i
        self.b += v.to_bytes(n, "little")

    def f32bits(self, x):
        self.b += struct.pack("<I", x)

    def typ(self, name, parent, members, version=0):
        """members: [(name, type_bits, class_name|None, tuple_size)]"""
        self.pint(2)
        self.string(name)
        self.pint(version)
        self.pint(parent)
        self.pint(len(members))
        for m in members:
            mn, t, cls = m[0], m[1], m[2]
            self.string(mn)
            self.pint(t)
            if t & TUPLE:
                self.pint(m[3] if len(m) > 3 else 0)
            if (t & 0xF) in (T_OBJECT, T_STRUCT):
                self.string(cls)


def build_skeleton_tagfile(rng, bones, poses, extra=True):
    """bones: [(name, parent)], poses: [[12 f32 bit patterns]] -> bytes of a tag file holding
    hkRootLevelContainer -> hkaAnimationContainer -> hkaSkeleton (+ unused types/members/objects)"""
    w = W()
    if extra and rng.random() < 0.5:
        w.literal_repeat = rng
    w.b += struct.pack("<II", 0xCAB00D1E, 0xD011FACE)
    w.pint(1); w.pint(3)  # FileInfo, version 3
    types = {}  # name -> index (index 0 = builtin "object")
    ti = [1]

    def T(name, parent, members, version=0):
        w.typ(name, types[parent] if parent else 0, members, version)
        types[name] = ti[0]
        ti[0] += 1

    # optional unused types in front
    if extra and rng.random() < 0.7:
        unused = [("someInt", T_INT, None), ("someTuple", TUPLE | T_REAL, None, 3), ("someVec", T_VEC4, None), ("bytes", ARRAY | T_BYTE, None)]
        if rng.random() < 0.6:
            # members that carry both a tuple size and a class name (merely declared, no object uses them)
            unused += [("objPair", TUPLE | T_OBJECT, "hkReferencedObject", 2), ("frames", TUPLE | T_STRUCT, "hkUnusedFrame", rng.choice([1, 4, 200])), ("objs", ARRAY | T_OBJECT, "hkBaseObject"),
                       ("vecs", TUPLE | T_VEC16, None, 3), ("names", TUPLE | T_STRING, None, 2)]
            rng.shuffle(unused)
        T("hkUnusedThing", None, unused, version=rng.choice([0, 1, 300]))
    # the root of the inheritance chain may declare members of its own (objects of hkaSkeleton then carry presence bits for three levels)
    base_members = [("baseTag", T_INT, None)] * 1 if (extra and rng.random() < 0.4) else []
    if base_members and rng.random() < 0.5:
        base_members = base_members + [("baseFlags", T_BYTE, None)]
    T("hkBaseObject", None, base_members)
    two = bool(extra and rng.random() < 0.5)
    T("hkReferencedObject", "hkBaseObject", [("memSizeAndFlags", T_INT, None), ("referenceCount", T_INT, None)] if two else [("memSizeAndFlags", T_INT, None)])
    nbase = len(base_members)
    nref = (2 if two else 1) + nbase
    inh_types = [m[1] for m in base_members] + [T_INT] * (2 if two else 1)     # inherited members, root class first

    def inherited_values(present, choices):
        for p, t in zip(present, inh_types):
            if p:
                if t == T_BYTE:
                    w.b.append(rng.randrange(256))
                else:
                    w.pint(rng.choice(choices))
    T("hkRootLevelContainerNamedVariant", None, [("name", T_STRING, None), ("className", T_STRING, None), ("variant", T_OBJECT, "hkReferencedObject")])
    T("hkRootLevelContainer", None, [("namedVariants", ARRAY | T_STRUCT, "hkRootLevelContainerNamedVariant")])
    cont_members = [("skeletons", ARRAY | T_OBJECT, "hkaSkeleton"), ("animations", ARRAY | T_OBJECT, "hkaAnimation"), ("bindings", ARRAY | T_OBJECT, "hkaAnimationBinding"),
                    ("attachments", ARRAY | T_OBJECT, "hkaBoneAttachment"), ("skins", ARRAY | T_OBJECT, "hkaMeshBinding")]
    if extra and rng.random() < 0.5:
        rng.shuffle(cont_members)
    T("hkaAnimationContainer", "hkReferencedObject", cont_members)
    bone_members = [("name", T_STRING, None), ("lockTranslation", T_BYTE, None)]
    if extra and rng.random() < 0.5:
        bone_members = [("lockTranslation", T_BYTE, None), ("name", T_STRING, None)]
    T("hkaBone", None, bone_members)
    if extra and rng.random() < 0.5:
        T("hkLocalFrame", "hkReferencedObject", [])
    skel_members = [("name", T_STRING, None), ("parentIndices", ARRAY | T_INT, None), ("bones", ARRAY | T_STRUCT, "hkaBone"), ("referencePose", ARRAY | T_VEC12, None),
                    ("referenceFloats", ARRAY | T_REAL, None), ("floatSlots", ARRAY | T_STRING, None)]
    never = set()
    if extra and rng.random() < 0.5:
        # declared members of the used class that no object carries (their presence bit is always clear)
        more = [("localFrames", ARRAY | T_STRUCT, "hkaSkeletonLocalFrameOnBone"), ("partitionPair", TUPLE | T_OBJECT, "hkReferencedObject", 2), ("frameTuple", TUPLE | T_STRUCT, "hkaBone", 3)]
        more = rng.sample(more, rng.randint(1, 3))
        never = {x[0] for x in more}
        skel_members += more
    empties = set()
    if extra and rng.random() < 0.4:
        # arrays that ARE stored, with no elements: an integer array still carries its element-kind integer, an array of structs its
        # member presence bits
        pe = rng.sample([("extraInts", ARRAY | T_INT, None), ("extraBones", ARRAY | T_STRUCT, "hkaBone"), ("extraReals", ARRAY | T_REAL, None), ("extraNames", ARRAY | T_STRING, None)], rng.randint(1, 3))
        empties = {x[0] for x in pe}
        skel_members += pe
    if extra and rng.random() < 0.5:
        rng.shuffle(skel_members)
    T("hkaSkeleton", "hkReferencedObject", skel_members)

    # objects are remembered starting at index 1 (index 0 is created by FileInfo)
    # object 1: root container
    w.pint(4); w.pint(types["hkRootLevelContainer"]); w.bits([True])
    variants = [("Merged Animation Container", "hkaAnimationContainer", 2)]
    if extra and rng.random() < 0.5:
        variants.insert(0, ("Scene Data", "hkxScene", 0))  # a variant of another class in front
    w.pint(len(variants)); w.bits([True, True, True])
    for v in variants:
        w.string(v[0])
    for v in variants:
        w.string(v[1])
    for v in variants:
        w.pint(v[2])
    # object 2: animation container
    w.pint(4); w.pint(types["hkaAnimationContainer"])
    present = [rng.random() < 0.5 for _ in range(nref)]
    order = [m[0] for m in cont_members]
    flags = list(present)
    for mname in order:
        flags.append(mname == "skeletons" or (extra and rng.random() < 0.3))
    w.bits(flags)
    inherited_values(present, [0, 1, -1, 70000, -70000, 2 ** 30])
    for mname, f in zip(order, flags[nref:]):
        if f:
            if mname == "skeletons":
                w.pint(1); w.pint(3)
            else:
                w.pint(0)  # empty array of objects
    # object 3: skeleton
    w.pint(4); w.pint(types["hkaSkeleton"])
    present = [rng.random() < 0.5 for _ in range(nref)]
    sorder = [m[0] for m in skel_members]
    needed = {"parentIndices", "bones", "referencePose"}
    flags = list(present) + [(m in needed) or (m in empties) or (m not in never and extra and rng.random() < 0.4) for m in sorder]
    w.bits(flags)
    inherited_values(present, [0, 5, -3, 123456])
    for mname, f in zip(sorder, flags[nref:]):
        if not f:
            continue
        if mname == "extraInts":
            w.pint(0); w.pint(rng.choice([0, 1, 2]))
        elif mname == "extraBones":
            w.pint(0); w.bits([rng.random() < 0.5 for _ in bone_members])
        elif mname in ("extraReals", "extraNames"):
            w.pint(0)
        elif mname == "name":
            w.string(rng.choice(["skeleton", "", bones[0][0]]))
        elif mname == "parentIndices":
            w.pint(len(bones)); w.pint(rng.choice([0, 1, 2]))
            for _, p in bones:
                w.pint(p)
        elif mname == "bones":
            w.pint(len(bones))
            bflags = [True if m[0] == "name" else (extra and rng.random() < 0.5) for m in bone_members]
            w.bits(bflags)
            for m, f2 in zip(bone_members, bflags):
                if not f2:
                    continue
                if m[0] == "name":
                    for n, _ in bones:
                        w.string(n)
                else:
                    for _ in bones:
                        w.b.append(rng.randrange(2))
        elif mname == "referencePose":
            w.pint(len(poses))
            for p in poses:
                for x in p:
                    w.f32bits(x)
        elif mname == "referenceFloats":
            k = rng.choice([0, 2])
            w.pint(k)
            for _ in range(k):
                w.f32bits(rng.getrandbits(32))
        elif mname == "floatSlots":
            k = rng.choice([0, 1])
            w.pint(k)
            for _ in range(k):
                w.string("slot")
    w.pint(7)  # FileEnd
    return bytes(w.b)


def build_sklb(version, havok, rng, filler_len=None):
    """version 1 -> 0x31323030 container, 2 -> 0x31333030 / 0x31333031"""
    filler = rng.randbytes(rng.choice([0, 4, 40]) if filler_len is None else filler_len)
    if version == 1:
        hoff = 8 + 20 + len(filler)
        hdr = struct.pack("<iI", 0x736B6C62, 0x31323030) + struct.pack("<HHIIII", 28, hoff, rng.getrandbits(32), 0, 0, 0)
    else:
        hoff = 8 + 28 + len(filler)
        hdr = struct.pack("<iI", 0x736B6C62, rng.choice([0x31333030, 0x31333031])) + struct.pack("<7I", 36, hoff, 0, rng.getrandbits(32), 0, 0, 0)
    return hdr + filler + havok
