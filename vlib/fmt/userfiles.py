"""Independent codecs (by byte offset) for character presets (.dat, 212 bytes) and gear-set files."""
import struct

CHAR_FIELDS = ["race", "gender", "age", "height", "tribe", "face", "hair", "enable_highlights", "skin_tone",
               "right_eye_color", "hair_tone", "highlights", "facial_features", "facial_feature_color", "eyebrows",
               "left_eye_color", "eyes", "nose", "jaw", "mouth", "lips_tone_fur_pattern", "race_feature_size",
               "race_feature_type", "bust", "face_paint", "face_paint_color", "voice"]
CHAR_MAGIC = 0x2013FF14
CHAR_LEN = 212


def char_checksum(b):
    c = 0
    for i, x in enumerate(b[0x10:0xD4]):
        c ^= (x << (i % 24)) & 0xFFFFFFFF
    return c


def char_build(vals, version, timestamp, comment):
    """vals: dict field -> byte; comment: bytes (<= 163)"""
    b = bytearray(CHAR_LEN)
    struct.pack_into("<II", b, 0, CHAR_MAGIC, version)
    for i, f in enumerate(CHAR_FIELDS):
        b[0x10 + i] = vals[f]
    struct.pack_into("<I", b, 0x2C, timestamp)
    b[0x30:0x30 + len(comment)] = comment
    struct.pack_into("<I", b, 8, char_checksum(b))
    return bytes(b)


def char_parse(b):
    if len(b) != CHAR_LEN or struct.unpack_from("<I", b, 0)[0] != CHAR_MAGIC:
        raise ValueError("not a character preset (len %d)" % len(b))
    d = {f: b[0x10 + i] for i, f in enumerate(CHAR_FIELDS)}
    d["version"], d["checksum"] = struct.unpack_from("<II", b, 4)
    d["pad_c"] = bytes(b[12:16])
    d["pad_2b"] = b[0x2B]
    d["timestamp"] = struct.unpack_from("<I", b, 0x2C)[0]
    raw = bytes(b[0x30:0xD4])
    d["comment"] = raw.split(b"\0")[0]
    d["comment_tail_zero"] = raw[len(d["comment"]):] == b"\0" * (164 - len(d["comment"]))
    d["checksum_ok"] = char_checksum(b) == d["checksum"]
    return d


# ---------------------------------------------------------------------------------------------
GS_MAGIC = 0x006D0005
GS_KEY = 0x73
GS_MARK = 1000000
GS_SETS = 100
GS_SLOTS = 14
GS_REC = 452
GS_BODY = 4 + GS_SETS * GS_REC  # 45204


def gs_build(sets, current=0, unknown1=0, unknown3=0):
    """sets: dict pos -> dict(index, name(bytes<=46), unk(u64), slots{slot: (id, glamour, (u1..u5))}, facewear)"""
    body = struct.pack("<BBH", unknown1, current, unknown3)
    for i in range(GS_SETS):
        s = sets.get(i)
        if s is None:
            rec = struct.pack("<B", 0) + b"\0" * 47 + struct.pack("<Q", 0) + struct.pack("<7I", GS_MARK, 0, 0, 0, 0, 0, 0) * GS_SLOTS + struct.pack("<I", 0)
        else:
            rec = struct.pack("<B", s["index"]) + s["name"].ljust(47, b"\0") + struct.pack("<Q", s.get("unk", 0))
            for k in range(GS_SLOTS):
                if k in s["slots"]:
                    iid, gl, unk = s["slots"][k]
                    rec += struct.pack("<7I", (iid + GS_MARK) & 0xFFFFFFFF, gl, *unk)
                else:
                    rec += struct.pack("<7I", GS_MARK, 0, 0, 0, 0, 0, 0)
            rec += struct.pack("<I", s.get("facewear", 0))
        assert len(rec) == GS_REC
        body += rec
    assert len(body) == GS_BODY
    return struct.pack("<IIII", GS_MAGIC, GS_BODY + 1, GS_BODY + 1, 0) + b"\xff" + bytes(x ^ GS_KEY for x in body)


def gs_parse(raw):
    magic, maxsz, csz, pad = struct.unpack_from("<IIII", raw, 0)
    if magic != GS_MAGIC or raw[16] != 0xFF:
        raise ValueError("header")
    body = bytes(x ^ GS_KEY for x in raw[17:17 + csz - 1])
    if len(body) != GS_BODY:
        raise ValueError("body length %d" % len(body))
    u1, cur, u3 = struct.unpack_from("<BBH", body, 0)
    sets = {}
    for i in range(GS_SETS):
        rec = body[4 + GS_REC * i:4 + GS_REC * (i + 1)]
        name = rec[1:48].split(b"\0")[0]
        slots = {}
        for k in range(GS_SLOTS):
            v = struct.unpack_from("<7I", rec, 56 + 28 * k)
            slots[k] = v
        sets[i] = dict(index=rec[0], name=name, unk=struct.unpack_from("<Q", rec, 48)[0], raw_slots=slots,
                       facewear=struct.unpack_from("<I", rec, 448)[0])
    return dict(max_size=maxsz, content_size=csz, pad=pad, unknown1=u1, current=cur, unknown3=u3, sets=sets, total_len=len(raw))
