"""Independent codec of the FileInfo (.fiin) table: 1024-byte header + 96-byte records."""
import struct


def parse(raw):
    """-> (unknown, entries_size, [(size, name_bytes, digest20, pad4, pad_after_size)])"""
    if raw[:8] != b"FileInfo":
        raise ValueError("magic")
    unk, esz = struct.unpack_from("<ii", raw, 24)
    out = []
    for i in range(max(esz, 0) // 96):
        rec = raw[1024 + 96 * i:1024 + 96 * (i + 1)]
        if len(rec) < 96:
            raise ValueError("short record")
        size = struct.unpack_from("<i", rec, 0)[0]
        out.append(dict(size=size, pad0=rec[4:8], name=rec[8:72].rstrip(b"\0"), name_raw=rec[8:72], digest=rec[72:92], pad1=rec[92:96]))
    return unk, esz, out


def build(entries):
    """entries: [(size, name_bytes, digest20)] -> bytes"""
    b = b"FileInfo" + b"\0" * 16 + struct.pack("<ii", 1024, len(entries) * 96) + b"\0" * 992
    for size, name, dig in entries:
        b += struct.pack("<i4x", size) + name.ljust(64, b"\0") + dig.ljust(24, b"\0")
    return b
