"""Independent builders for PBD, CMP, TERA and empty LGB files."""
import struct


def build_pbd(bodies, parent, bones, link_perm=None, block_align=4, lead=b""):
    """bodies: [body ids]; parent: {id: parent id or -1}; bones: {id: [(name bytes, [12 f32 bits])]}
    link_perm: permutation so that item i uses link index link_perm[i]"""
    n = len(bodies)
    idx = {b: i for i, b in enumerate(bodies)}
    perm = link_perm or list(range(n))
    children = {b: [c for c in bodies if parent[c] == b] for b in bodies}
    roots = [b for b in bodies if parent[b] == -1]
    links = [None] * n
    for b in bodies:
        p = parent[b]
        sibs = children[p] if p != -1 else roots
        k = sibs.index(b)
        links[perm[idx[b]]] = (perm[idx[p]] if p != -1 else -1, perm[idx[children[b][0]]] if children[b] else -1,
                               perm[idx[sibs[k + 1]]] if k + 1 < len(sibs) else -1, idx[b])
    hdr_len = 4 + n * 12 + n * 8
    blocks = lead      # bytes between the tables and the first block (blocks are found through their offsets only)
    offs = []
    for b in bodies:
        off = hdr_len + len(blocks)
        offs.append(off)
        bl = bones[b]
        cnt = len(bl)
        fixed = 4 + 2 * cnt + (2 if cnt % 2 else 0) + 48 * cnt
        noffs = []
        heap = b""
        for nm, _ in bl:
            noffs.append(fixed + len(heap)); heap += nm + b"\0"
        blk = struct.pack("<i", cnt) + b"".join(struct.pack("<H", o) for o in noffs) + (b"\0\0" if cnt % 2 else b"")
        for _, m in bl:
            blk += b"".join(struct.pack("<I", x) for x in m)
        blk += heap
        while len(blk) % block_align:
            blk += b"\0"
        blocks += blk
    out = struct.pack("<i", n)
    for i, b in enumerate(bodies):
        out += struct.pack("<Hhi4x", b, perm[i], offs[i])
    for l in links:
        out += struct.pack("<hhhH", *l)
    return out + blocks


def pbd_expected_chain(bodies, parent, frm, to):
    """body ids whose bones are returned, in order; None when the query is outside the documented domain"""
    if frm == to or frm not in parent:
        return None
    chain = []
    cur = frm
    while True:
        chain.append(cur)
        p = parent[cur]
        if p == -1 or p == to:
            break
        cur = p
    return chain


def pbd_has_next_sibling(bodies, parent, b):
    sibs = [c for c in bodies if parent[c] == parent[b]]
    return sibs.index(b) + 1 < len(sibs)


def build_cmp(rows, head=None, tail=b""):
    """rows: [[14 f32 bit patterns]]"""
    head = head if head is not None else b"\0" * 0x2A800
    assert len(head) == 0x2A800
    return head + b"".join(b"".join(struct.pack("<I", x) for x in r) for r in rows) + tail


def build_tera(positions, version=0x1000003, plate_size=128, clip=0.0, unknown=1.0, count=None):
    b = struct.pack("<IIIff", version, len(positions) if count is None else count, plate_size, clip, unknown) + b"\0" * 32
    for x, y in positions:
        b += struct.pack("<hh", x, y)
    return b


def build_empty_lgb(file_id, chunk_id, layer_group_id, name):
    body = struct.pack("<IiiiIi", chunk_id, 24, layer_group_id, 16, 16, 0) + name + b"\0"
    return struct.pack("<Iii", file_id, 12 + len(body), 1) + body


def parse_empty_lgb(b):
    file_id, size, chunks = struct.unpack_from("<Iii", b, 0)
    chunk_id, csize, lgid, noff, loff, lcount = struct.unpack_from("<IiiiIi", b, 12)
    name = b[20 + noff:].split(b"\0")[0]
    return dict(file_id=file_id, file_size=size, chunks=chunks, chunk_id=chunk_id, chunk_size=csize, layer_group_id=lgid, name=name, layer_count=lcount)


# ---------------------------------------------------------------------------------------------
# layer groups with layers and instance objects (seed for the hostile-input checks; the value side of
# these records is not covered by a property, only the decoder's robustness is)

LGB_OBJECTS = {
    0x01: lambda rng: struct.pack("<IIiIIiBBBBf", 0, 0, rng.choice([0, 1, 2]), rng.getrandbits(32), rng.getrandbits(32), 0, 1, 0, 1, 0, 10.0),      # BG
    0x04: lambda rng: struct.pack("<IfI4BBBHfffff", 0, 1.0, 0, 1, 2, 3, 4, 1, 0, 0, 0.0, 1.0, 2.0, 3.0, 4.0),                                        # Vfx
    0x05: lambda rng: struct.pack("<iII", rng.choice([1, 2, 3, 4]), 0, 0),                                                                             # PositionMarker
    0x07: lambda rng: struct.pack("<iI", 0, 0),                                                                                                        # Sound
    0x0E: lambda rng: struct.pack("<II", rng.getrandbits(32), 0),                                                                                      # Gathering
    0x10: lambda rng: struct.pack("<B3x8x", 1),                                                                                                        # Treasure
    0x28: lambda rng: struct.pack("<iiifB3xI", rng.choice([1, 2, 3]), 0, 0, 0.5, 3, 0),                                                                # PopRange
    0x29: lambda rng: struct.pack("<ihBBI", rng.choice([1, 2, 3, 4, 5, 6]), 5, 1, 0, 0) + struct.pack("<iHHiIIfI", 1, 130, 131, 2, 77, 78, 1.5, 0),   # ExitRange
    0x2B: lambda rng: b"",                                                                                                                             # MapRange (no payload read)
    90: lambda rng: b"",                                                                                                                               # Unk1
}


def build_lgb_layers(rng, nlayers=2, objects_per_layer=(3, 2), file_id=0x3142474C, chunk_id=0x3150474C, layer_group_id=7, name=b"bg"):
    """-> (bytes, expected dict(layers=[(layer_id, name, [(type, instance_id)...])]))"""
    layers = []
    blobs = []
    for li in range(nlayers):
        k = objects_per_layer[li % len(objects_per_layer)]
        types = [rng.choice(sorted(LGB_OBJECTS)) for _ in range(k)]
        lname = b"layer_%d" % li
        objs = []
        for t in types:
            iid = rng.getrandbits(32)
            oname = b"obj_%x" % iid
            payload = LGB_OBJECTS[t](rng)
            # asset type, instance id, name offset (relative to the object), translation / rotation / scale
            rec = struct.pack("<iII9f", t, iid, 48 + len(payload), *[float(i) for i in range(9)]) + payload + oname + b"\0"
            while len(rec) % 4:
                rec += b"\0"
            objs.append((t, iid, rec))
        ioffs = []
        body = b""
        for (_, _, rec) in objs:
            ioffs.append(4 * k + len(body))
            body += rec
        after = 52 + 4 * k + len(body)
        name_off = after
        tailb = lname + b"\0"
        while len(tailb) % 4:
            tailb += b"\0"
        lsr_off = after + len(tailb)
        nsets = rng.choice([0, 1, 3])
        tailb += struct.pack("<iii", rng.choice([0, 1, 2, 3]), 12, nsets) + b"".join(struct.pack("<I", rng.getrandbits(32)) for _ in range(nsets))
        obs_off = after + len(tailb)
        nobs = rng.choice([0, 1, 2])
        tailb += b"".join(struct.pack("<iII", rng.choice(sorted(LGB_OBJECTS)), rng.getrandbits(32), 0) for _ in range(nobs))
        obe_off = after + len(tailb)
        nobe = rng.choice([0, 1, 2])
        tailb += b"".join(struct.pack("<iIBB2x", rng.choice(sorted(LGB_OBJECTS)), rng.getrandbits(32), 1, 0) for _ in range(nobe))
        hdr = struct.pack("<IIii4BiHHBBH4xiiii", 100 + li, name_off, 52, k, 1, 0, 0, 1, lsr_off, 0, 0, 0, 0, 0xFFFF, obs_off, nobs, obe_off, nobe)
        assert len(hdr) == 52
        blobs.append(hdr + b"".join(struct.pack("<i", o) for o in ioffs) + body + tailb)
        layers.append((100 + li, lname.decode(), [(t, iid) for t, iid, _ in objs]))
    offs = []
    pos = 4 * nlayers
    for b in blobs:
        offs.append(pos)
        pos += len(b)
    body = b"".join(struct.pack("<i", o) for o in offs) + b"".join(blobs)
    name_pos = 36 + len(body)
    body += name + b"\0"
    chunk = struct.pack("<IiiIii", chunk_id, 24 + len(body) - 8, layer_group_id, name_pos - 20, 16, nlayers)
    data = struct.pack("<Iii", file_id, 12 + len(chunk) + len(body), 1) + chunk + body
    return data, dict(layers=layers, name=name.decode(), layer_group_id=layer_group_id)
