"""Independent builders for PBD, CMP, TERA and empty LGB files."""
import struct


def build_pbd(bodies, parent, bones, link_perm=None, block_align=4, lead=b""):
    """bodies: [body ids]; parent: {id: parent id or -1}; bones: {id: [(name bytes, [12 f32 bits])]}
    link_perm: permutation so that item i uses link index link_perm[i]"""
    n = len(bodies)
    idx = {b: i for i, b in enumerate(bodies)}
    perm = link_perm or list(range(n))
    children = {b: [c for c in bodies if parent[c] == b] for b in bodies}
    roots = [b for b in bodies if parent[b] == -1]
    links = [None] * n
    for b in bodies:
        p = parent[b]
        sibs = children[p] if p != -1 else roots
        k = sibs.index(b)
        links[perm[idx[b]]] = (perm[idx[p]] if p != -1 else -1, perm[idx[children[b][0]]] if children[b] else -1,
                               perm[idx[sibs[k + 1]]] if k + 1 < len(sibs) else -1, idx[b])
    hdr_len = 4 + n * 12 + n * 8
    blocks = lead      # bytes between the tables and the first block (blocks are found through their offsets only)
    offs = []
    for b in bodies:
        off = hdr_len + len(blocks)
        offs.append(off)
        bl = bones[b]
        cnt = len(bl)
        fixed = 4 + 2 * cnt + (2 if cnt % 2 else 0) + 48 * cnt
        noffs = []
        heap = b""
        for nm, _ in bl:
            noffs.append(fixed + len(heap)); heap += nm + b"\0"
        blk = struct.pack("<i", cnt) + b"".join(struct.pack("<H", o) for o in noffs) + (b"\0\0" if cnt % 2 else b"")
        for _, m in bl:
            blk += b"".join(struct.pack("<I", x) for x in m)
        blk += heap
        while len(blk) % block_align:
            blk += b"\0"
        blocks += blk
    out = struct.pack("<i", n)
    for i, b in enumerate(bodies):
        out += struct.pack("<Hhi4x", b, perm[i], offs[i])
    for l in links:
        out += struct.pack("<hhhH", *l)
    return out + blocks


def pbd_expected_chain(bodies, parent, frm, to):
    """body ids whose bones are returned, in order; None when the query is outside the documented domain"""
    if frm == to or frm not in parent:
        return None
    chain = []
    cur = frm
    while True:
        chain.append(cur)
        p = parent[cur]
        if p == -1 or p == to:
            break
        cur = p
    return chain


def pbd_has_next_sibling(bodies, parent, b):
    sibs = [c for c in bodies if parent[c] == parent[b]]
    return sibs.index(b) + 1 < len(sibs)


def build_cmp(rows, head=None, tail=b""):
    """rows: [[14 f32 bit patterns]]"""
    head = head if head is not None else b"\0" * 0x2A800
    assert len(head) == 0x2A800
    return head + b"".join(b"".join(struct.pack("<I", x) for x in r) for r in rows) + tail


def build_tera(positions, version=0x1000003, plate_size=128, clip=0.0, unknown=1.0, count=None):
    b = struct.pack("<IIIff", version, len(positions) if count is None else count, plate_size, clip, unknown) + b"\0" * 32
    for x, y in positions:
        b += struct.pack("<hh", x, y)
    return b


def build_empty_lgb(file_id, chunk_id, layer_group_id, name):
    body = struct.pack("<IiiiIi", chunk_id, 24, layer_group_id, 16, 16, 0) + name + b"\0"
    return struct.pack("<Iii", file_id, 12 + len(body), 1) + body


def parse_empty_lgb(b):
    file_id, size, chunks = struct.unpack_from("<Iii", b, 0)
    chunk_id, csize, lgid, noff, loff, lcount = struct.unpack_from("<IiiiIi", b, 12)
    name = b[20 + noff:].split(b"\0")[0]
    return dict(file_id=file_id, file_size=size, chunks=chunks, chunk_id=chunk_id, chunk_size=csize, layer_group_id=lgid, name=name, layer_count=lcount)
