"""Independent .tex builder and BCn / BGRA reference decoders written from the format specification."""
import struct
from fractions import Fraction

FORMATS = {"bgra": 0x1450, "bc1": 0x3420, "bc3": 0x3431, "bc5": 0x6230}
ATTR_3D = 0x1000000


def header(attr, fmt, w, h, d, mips=1, lod=(0, 0, 0), surf=None):
    surf = surf or [80] + [0] * 12
    return struct.pack("<IIHHHH3I13I", attr, FORMATS[fmt], w, h, d, mips, *lod, *surf)


def exp565(q):
    r5 = (q >> 11) & 31
    g6 = (q >> 5) & 63
    b5 = q & 31
    return ((r5 << 3) | (r5 >> 2), (g6 << 2) | (g6 >> 4), (b5 << 3) | (b5 >> 2))


def bc1_palette(d):
    """-> 4 entries of ((r,g,b) as (num, den) rationals or ints, alpha or None, interpolated?)"""
    q0, q1 = struct.unpack_from("<HH", d, 0)
    c0, c1 = exp565(q0), exp565(q1)
    if q0 > q1:
        return [(tuple((x, 1) for x in c0), 255, False), (tuple((x, 1) for x in c1), 255, False),
                (tuple((2 * a + b, 3) for a, b in zip(c0, c1)), 255, True), (tuple((a + 2 * b, 3) for a, b in zip(c0, c1)), 255, True)]
    return [(tuple((x, 1) for x in c0), 255, False), (tuple((x, 1) for x in c1), 255, False),
            (tuple((a + b, 2) for a, b in zip(c0, c1)), 255, True), (((0, 1), (0, 1), (0, 1)), None, False)]


def alpha_palette(d):
    """-> 8 entries (num, den, interpolated?)"""
    a0, a1 = d[0], d[1]
    if a0 > a1:
        return [(a0, 1, False), (a1, 1, False)] + [((7 - i) * a0 + i * a1, 7, True) for i in range(1, 7)]
    return [(a0, 1, False), (a1, 1, False)] + [((5 - i) * a0 + i * a1, 5, True) for i in range(1, 5)] + [(0, 1, False), (255, 1, False)]


def accept(num, den, interpolated):
    """acceptable byte values for an exact rational num/den: exact when not interpolated,
    floor and round-to-nearest (both in use) plus ceil when interpolated"""
    if not interpolated or num % den == 0:
        return (num // den, num // den)
    return (num // den, num // den + 1)


def block_pixels(fmt, d):
    """-> 16 pixels, each a list of 4 (lo, hi) pairs in RGBA order"""
    if fmt == "bc1":
        pal = bc1_palette(d)
        sel = struct.unpack_from("<I", d, 4)[0]
        px = []
        for i in range(16):
            c, a, ip = pal[(sel >> (2 * i)) & 3]
            px.append([accept(n, dn, ip) for n, dn in c] + [(a, a) if a is not None else (1, 0)])
    elif fmt == "bc3":
        ap = alpha_palette(d[:8])
        abits = int.from_bytes(d[2:8], "little")
        pal = bc1_palette(d[8:])
        sel = struct.unpack_from("<I", d, 12)[0]
        px = []
        for i in range(16):
            c, a, ip = pal[(sel >> (2 * i)) & 3]
            an, ad, aip = ap[(abits >> (3 * i)) & 7]
            px.append([accept(n, dn, ip) for n, dn in c] + [accept(an, ad, aip)])
    else:
        rp = alpha_palette(d[:8]); rbits = int.from_bytes(d[2:8], "little")
        gp = alpha_palette(d[8:]); gbits = int.from_bytes(d[10:16], "little")
        px = []
        for i in range(16):
            rn, rd, rip = rp[(rbits >> (3 * i)) & 7]
            gn, gd, gip = gp[(gbits >> (3 * i)) & 7]
            px.append([accept(rn, rd, rip), accept(gn, gd, gip), (0, 0), (255, 255)])
    return px


def decode_expected(fmt, w, h, payload):
    """-> (lo, hi) bytearrays of w*h*4 giving the accepted range per output byte (RGBA order);
    hi < lo marks an unconstrained byte. Blocks are decoded once per distinct content and the image
    is assembled row-wise, so large tiled payloads stay cheap."""
    if fmt == "bgra":
        lo = bytearray(payload[:w * h * 4])
        lo[0::4] = payload[2:w * h * 4:4]
        lo[2::4] = payload[0:w * h * 4:4]
        return lo, bytearray(lo)
    bs = 8 if fmt == "bc1" else 16
    memo = {}
    lo_rows, hi_rows = [], []
    bw = (w + 3) // 4
    off = 0
    for by in range((h + 3) // 4):
        rows = []
        for bx in range(bw):
            d = payload[off:off + bs]
            off += bs
            r = memo.get(d)
            if r is None:
                px = block_pixels(fmt, d)
                r = ([bytes(px[4 * y + x][c][0] for x in range(4) for c in range(4)) for y in range(4)],
                     [bytes(px[4 * y + x][c][1] for x in range(4) for c in range(4)) for y in range(4)])
                if len(memo) < 70000:
                    memo[d] = r
            rows.append(r)
        for y in range(min(4, h - 4 * by)):
            lo_rows.append(b"".join(r[0][y] for r in rows)[:4 * w])
            hi_rows.append(b"".join(r[1][y] for r in rows)[:4 * w])
    return bytearray(b"".join(lo_rows)), bytearray(b"".join(hi_rows))


def payload_len(fmt, w, h):
    if fmt == "bgra":
        return w * h * 4
    return ((w + 3) // 4) * ((h + 3) // 4) * (8 if fmt == "bc1" else 16)
