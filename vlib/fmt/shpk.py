"""Independent SHPK builder (documented layout)."""
import struct


class Builder:
    def __init__(self, strings="nul"):
        """strings: how names are laid out in the string block - 'nul' (each NUL-terminated), 'packed' (back to back, no terminators:
        the stored length delimits a name) or 'shared' (a name is stored as the prefix of a longer string that another name may use)"""
        self.strs = b""
        self.blobs = b""
        self.mode = strings

    def S(self, s):
        if self.mode == "shared":
            at = self.strs.find(s)
            if at >= 0 and s:
                return at, len(s)
            o = len(self.strs)
            self.strs += s + b"Normal_" + s[:3] + b"\0"
            return o, len(s)
        o = len(self.strs)
        self.strs += s + (b"" if self.mode == "packed" else b"\0")
        return o, len(s)

    def param(self, p):
        o, l = self.S(p["name"])
        return struct.pack("<IIHHHH", p["id"], o, l, p.get("unknown", 0), p["slot"], p["size"])

    def shader(self, sh, is_vertex):
        off = len(self.blobs)
        data = (sh.get("extra", b"ADDHDR!!") if is_vertex else b"") + sh["code"]
        self.blobs += data
        b = struct.pack("<IIHHHH", off, len(sh["code"]) if sh.get("size_excludes_header") and is_vertex else len(data), len(sh["scalars"]), len(sh["resources"]), len(sh["uavs"]), len(sh["textures"]))
        for p in sh["scalars"] + sh["resources"] + sh["uavs"] + sh["textures"]:
            b += self.param(p)
        return b


def build(p, slack=0, strings="nul", strings_first=False):
    """p: dict(dx b'DX11'|b'DX9\\0', version, vs[], ps[], mat_params[(id, off, size)], mat_size, defaults[f32 bits] or None, scalars[], samplers[], textures[], uavs[],
    sys_keys[(id, def)], scene_keys, mat_keys, sub1, sub2, nodes[dict(selector, passes[(id, vs, ps)], idx bytes16, sys[], scene[], mat[], sub[2])], aliases[(sel, node)])"""
    B = Builder(strings)
    body = b"".join(B.shader(s, True) for s in p["vs"]) + b"".join(B.shader(s, False) for s in p["ps"])
    body += b"".join(struct.pack("<IHH", *m) for m in p["mat_params"])
    if p["defaults"] is not None:
        body += b"".join(struct.pack("<I", d) for d in p["defaults"])
    for grp in ("scalars", "samplers", "textures", "uavs"):
        body += b"".join(B.param(x) for x in p[grp])
    body += b"".join(struct.pack("<II", *k) for k in p["sys_keys"] + p["scene_keys"] + p["mat_keys"]) + struct.pack("<II", p["sub1"], p["sub2"])
    for n in p["nodes"]:
        body += struct.pack("<II", n["selector"], len(n["passes"])) + n["idx"]
        body += b"".join(struct.pack("<I", k) for k in n["sys"] + n["scene"] + n["mat"] + n["sub"])
        body += b"".join(struct.pack("<III", *ps) for ps in n["passes"])
    body += b"".join(struct.pack("<II", *a) for a in p["aliases"])
    hdr_len = 4 * 9 + 2 * 8 + 4 * 5
    if strings_first:
        # the two sections are located by their offsets: the string block may as well precede the blobs
        so = hdr_len + len(body)
        sdo = so + len(B.strs)
        total = sdo + len(B.blobs) + slack
    else:
        sdo = hdr_len + len(body)
        so = sdo + len(B.blobs)
        total = so + len(B.strs) + slack
    hdr = b"ShPk" + struct.pack("<I", p.get("version", 0x0D01)) + p["dx"] + struct.pack("<III", total, sdo, so)
    hdr += struct.pack("<II", len(p["vs"]), len(p["ps"])) + struct.pack("<IH", p["mat_size"], len(p["mat_params"]))
    hdr += struct.pack("<HHHHHHH", 1 if p["defaults"] is not None else 0, len(p["scalars"]), 0, len(p["samplers"]), len(p["textures"]), len(p["uavs"]), 0)
    hdr += struct.pack("<IIIII", len(p["sys_keys"]), len(p["scene_keys"]), len(p["mat_keys"]), len(p["nodes"]), len(p["aliases"]))
    assert len(hdr) == hdr_len
    tail = (B.strs + B.blobs) if strings_first else (B.blobs + B.strs)
    return hdr + body + tail + b"\0" * slack, dict(shader_data_offset=sdo, strings_offset=so)
