"""Independent SqPack builders: index / index2 files, dat files with standard, texture and model
entries, block packer on top of Python's zlib (raw deflate, wbits=-15)."""
import os
import struct
import zlib

CATEGORIES = {
    "common": 0x00, "bgcommon": 0x01, "bg": 0x02, "cut": 0x03, "chara": 0x04, "shader": 0x05, "ui": 0x06,
    "sound": 0x07, "vfx": 0x08, "ui_script": 0x09, "exd": 0x0A, "game_script": 0x0B, "music": 0x0C,
    "sqpack_test": 0x12, "debug": 0x13,
}
PLATFORMS = {"win32": 0, "ps3": 1, "ps4": 2, "ps5": 3, "lys": 4}


def jam(b):
    return (zlib.crc32(b) ^ 0xFFFFFFFF) & 0xFFFFFFFF


def hash1(path):
    p = path.lower().encode()
    d, f = p.rsplit(b"/", 1)
    return (jam(f), jam(d))


def hash2(path):
    return jam(path.lower().encode())


def sqpack_header(ftype, platform=0):
    h = b"SqPack\0\0" + struct.pack("<B3xIIB3xIIh2x", platform, 1024, 1, ftype, 0, 0, -1)
    h += b"\0" * 924 + b"\0" * 20 + b"\0" * 44
    assert len(h) == 1024
    return h


def _seg(count, offset, size):
    return struct.pack("<III", count, offset, size) + b"\0" * 20 + b"\0" * 40


def index_file(kind, entries, platform=0, ndats=1, junk=b"", folders=False):
    """kind 1: entries [((name_crc, folder_crc), dat_id, offset, synonym)]; kind 2: [(crc, dat_id, offset, synonym)]
    folders (kind 1): entries sorted by (folder, name) hash as retail files are, followed by the folder table (fourth segment:
    folder hash, file offset of the folder's first entry, 16 x number of its entries, 4 bytes padding)"""
    body = b""
    if folders and kind == 1:
        entries = sorted(entries, key=lambda e: (e[0][1], e[0][0]))
    for h, dat, off, syn in entries:
        assert off % 128 == 0 and 0 <= dat < 8
        word = (off // 8) | (dat << 1) | (1 if syn else 0)
        if kind == 1:
            body += struct.pack("<IIII", h[0], h[1], word, 0)
        else:
            body += struct.pack("<II", h, word)
    ftab = b""
    if folders and kind == 1:
        i = 0
        recs = []
        while i < len(entries):
            j = i
            while j < len(entries) and entries[j][0][1] == entries[i][0][1]:
                j += 1
            recs.append((entries[i][0][1], 2048 + 16 * i, 16 * (j - i)))
            i = j
        if callable(folders):
            recs = folders(recs)       # a sloppy table: records dropped, ranges shortened (the entries themselves stay complete)
        ftab = b"".join(struct.pack("<IIII", h_, o_, z_, 0) for h_, o_, z_ in recs)
    ih = struct.pack("<I", 1024) + _seg(1, 2048, len(body)) + b"\0" * 4 + _seg(ndats, 0, 0) + _seg(0, 0, 0) + (_seg(0, 2048 + len(body), len(ftab)) if ftab else _seg(0, 0, 0))
    body += ftab
    ih += struct.pack("<B3x", 0 if kind == 1 else 1) + b"\0" * 656 + b"\0" * 20 + b"\0" * 44
    ih = ih.ljust(1024, b"\0")
    assert len(ih) == 1024
    return sqpack_header(2, platform) + ih + body + junk


def index_filename(cat_id, exp, chunk, platform, kind):
    return "%02x%02d%02d.%s.index%s" % (cat_id, exp, chunk, platform, "" if kind == 1 else "2")


def dat_filename(cat_id, exp, chunk, platform, dat):
    return "%02x%02d%02d.%s.dat%d" % (cat_id, exp, chunk, platform, dat)


def repo_name(exp):
    return "ffxiv" if exp == 0 else "ex%d" % exp


# ---------------------------------------------------------------------------------------------
# blocks

STRATEGIES = {
    "raw": None,
    "stored": (0, zlib.Z_DEFAULT_STRATEGY),
    "fixed": (6, zlib.Z_FIXED),
    "huffman": (6, zlib.Z_HUFFMAN_ONLY),
    "rle": (6, zlib.Z_RLE),
    "dynamic": (9, zlib.Z_DEFAULT_STRATEGY),
    "fast": (1, zlib.Z_DEFAULT_STRATEGY),
}


def deflate_fixed_literals(data):
    """a raw deflate stream made of ONE final block with fixed Huffman codes and literals only (written out by hand: zlib
    itself falls back to a stored block whenever that is not longer)"""
    acc, nbits, out = 0, 0, bytearray()

    def put(value, n, msb_first):
        nonlocal acc, nbits
        for i in range(n):
            bit = (value >> (n - 1 - i)) & 1 if msb_first else (value >> i) & 1
            acc |= bit << nbits
            nbits += 1
            if nbits == 8:
                out.append(acc); acc = 0; nbits = 0
    put(1, 1, False)      # BFINAL
    put(1, 2, False)      # BTYPE = 01
    for b in data:
        if b < 144:
            put(0x30 + b, 8, True)
        else:
            put(0x190 + (b - 144), 9, True)
    put(0, 7, True)       # end of block
    if nbits:
        out.append(acc)
    return bytes(out)


def pack_block(data, strategy, pad_to=128, junk=0):
    """one data block: 16-byte header + payload, padded; returns (bytes, strategy_used)"""
    used = strategy
    payload = None
    if strategy == "fixed-literals":
        payload = deflate_fixed_literals(data)
        assert zlib.decompress(payload, -15) == data
        if len(payload) >= 32000:
            payload = None
            used = "raw"
    elif strategy != "raw":
        level, strat = STRATEGIES[strategy]
        c = zlib.compressobj(level, zlib.DEFLATED, -15, 8, strat)
        payload = c.compress(data) + c.flush()
        if len(payload) >= 32000:
            payload = None
            used = "raw"
    if payload is None:
        hdr = struct.pack("<IIii", 16, 0, 32000, len(data))
        payload = data
    else:
        hdr = struct.pack("<IIii", 16, 0, len(payload), len(data))
    blk = hdr + payload
    if pad_to:
        blk = blk.ljust((len(blk) + pad_to - 1) // pad_to * pad_to, bytes([junk]))
    return blk, used


def split(data, sizes):
    out = []
    pos = 0
    i = 0
    while pos < len(data):
        n = sizes[i % len(sizes)]
        out.append(data[pos:pos + n])
        pos += n
        i += 1
    return out


def standard_entry(chunks, strategies, gap=0, order=None, extra_header=0, lead=None):
    """chunks: list of byte strings (the content split); order: storage order of the blocks (a permutation of their indices; the
    block table stays in content order and carries each block's offset); -> (entry bytes, used strategies)"""
    nb = len(chunks)
    # the stated header size is what locates the block area: it may be longer than the block table needs
    hsize = (24 + 8 * nb + 127) // 128 * 128 + 128 * extra_header
    packed = []
    used = []
    for c, s in zip(chunks, strategies):
        blk, u = pack_block(c, s)
        used.append(u)
        packed.append(blk)
    # lead: bytes in front of the first stored block (a stale copy of a block, or filler): the table says where each block is
    blocks = lead or b""
    offs = [0] * nb
    for i in (order if order is not None else range(nb)):
        offs[i] = len(blocks)
        blocks += packed[i] + b"\xCD" * (gap * 128)
    table = b"".join(struct.pack("<iHH", offs[i], len(packed[i]), len(chunks[i])) for i in range(nb))
    total = sum(len(c) for c in chunks)
    hdr = struct.pack("<IiI", hsize, 2, total) + struct.pack("<II", 0, (len(blocks) + 127) // 128) + struct.pack("<I", nb) + table
    return hdr.ljust(hsize, b"\0") + blocks, used


def texture_entry(header, mips, strategies_fn, mip_order=None, mip_gap=0, extra_header=0):
    """header: bytes of the .tex header (kept verbatim); mips: list of lists of chunks. mip_order: storage order of the mips after
    the first (mip 0 directly follows the header, its offset is the header length); mip_gap: unused 128-byte units between mips.
    -> (entry, expected_output, used)"""
    nl = len(mips)
    nsub = sum(len(m) for m in mips)
    hsize = (24 + 20 * nl + 2 * nsub + 127) // 128 * 128 + 128 * extra_header
    packed = []
    used = []
    expected = bytearray(header)
    for m in mips:
        blks = []
        for c in m:
            blk, u = pack_block(c, strategies_fn())
            used.append(u)
            blks.append(blk)
            expected += c
        packed.append(blks)
    data = bytearray(header)
    starts = [0] * nl
    storage = [0] + list(mip_order if mip_order is not None else range(1, nl)) if nl else []
    for k, mi in enumerate(storage):
        if k:
            data += b"\xCD" * (128 * mip_gap)
        starts[mi] = len(data)
        for blk in packed[mi]:
            data += blk
    lods = b""
    sizes = b""
    bi = 0
    for mi, m in enumerate(mips):
        lods += struct.pack("<IIIII", starts[mi], sum(len(b) for b in packed[mi]), sum(len(c) for c in m), bi, len(m))
        sizes += b"".join(struct.pack("<h", len(b)) for b in packed[mi])
        bi += len(m)
    hdr = struct.pack("<IiI", hsize, 4, len(expected)) + struct.pack("<II", 0, 0) + struct.pack("<I", nl) + lods + sizes
    return hdr.ljust(hsize, b"\0") + bytes(data), bytes(expected), used


def model_entry(version, stack, runtime, lods, vdecl_num, material_num, num_lods, streaming, edge, split_fn, strategies_fn, storage=None, sec_gap=0, extra_header=0):
    """stack, runtime: bytes; lods: list of 3 (vertex_bytes, index_bytes); split_fn(data)->chunks. storage: order in which the
    sections' block runs are laid out (names; the block-size table and the block indices stay in section order, every section carries
    its own offset); sec_gap: unused 128-byte units between the runs.
    -> (entry, sections dict, used)"""
    sections = [("stack", stack), ("runtime", runtime)]
    for i in range(3):
        sections.append(("v%d" % i, lods[i][0]))
        sections.append(("i%d" % i, lods[i][1]))
    data = b""
    sizes = []
    used = []
    info = {}
    runs = {}
    bindex = 0
    for name, sec in sections:
        chunks = split_fn(sec) if sec else []
        start_block = bindex
        comp = 0
        run = b""
        for c in chunks:
            blk, u = pack_block(c, strategies_fn())
            used.append(u)
            sizes.append(len(blk))
            run += blk
            comp += len(blk)
            bindex += 1
        runs[name] = run
        info[name] = dict(unc=len(sec), comp=comp, off=0, index=start_block, num=len(chunks))
    for name in (storage if storage is not None else [n for n, _ in sections]):
        if runs[name]:
            if data:
                data += b"\xCD" * (128 * sec_gap)
            info[name]["off"] = len(data)
            data += runs[name]

    def mms(field, fmt):
        order = ["stack", "runtime", "v0", "v1", "v2", "e0", "e1", "e2", "i0", "i1", "i2"]
        vals = [info[n][field] if n in info else 0 for n in order]
        return struct.pack("<11" + fmt, *vals)

    nblocks = bindex
    hsize = (12 + 12 + 44 * 3 + 22 * 2 + 8 + 2 * nblocks + 127) // 128 * 128 + 128 * extra_header
    total = 0x44 + sum(len(s) for _, s in sections)
    hdr = struct.pack("<IiI", hsize, 3, total) + struct.pack("<III", nblocks, nblocks, version)
    hdr += mms("unc", "I") + mms("comp", "I") + mms("off", "I") + mms("index", "H") + mms("num", "H")
    hdr += struct.pack("<HHBBBx", vdecl_num, material_num, num_lods, 1 if streaming else 0, 1 if edge else 0)
    hdr += b"".join(struct.pack("<H", s) for s in sizes)
    return hdr.ljust(hsize, b"\0") + data, dict(sections), used


def parse_model_header(b):
    f = struct.unpack_from("<IIIHH3I3I3I3IBBBx", b, 0)
    return dict(version=f[0], stack_size=f[1], runtime_size=f[2], vdecl=f[3], materials=f[4], vertex_offsets=f[5:8], index_offsets=f[8:11],
                vertex_sizes=f[11:14], index_sizes=f[14:17], lod_count=f[17], streaming=f[18], edge=f[19])


class DatBuilder:
    """one .datN file: SqPack header + 1024 bytes data header, entries at 128-aligned offsets"""

    def __init__(self, platform=0):
        self.buf = bytearray(sqpack_header(1, platform) + b"\0" * 1024)

    def add(self, entry, gap_blocks=0, junk=0xCD):
        self.buf += bytes([junk]) * (gap_blocks * 128)
        while len(self.buf) % 128:
            self.buf.append(junk)
        off = len(self.buf)
        self.buf += entry
        while len(self.buf) % 128:
            self.buf.append(junk)
        return off

    def bytes(self, tail_junk=128):
        return bytes(self.buf) + b"\xCD" * tail_junk
