"""Independent MTRL builder (documented layout, Lumina naming) and expected-value model."""
import struct

USAGES = {
    0x88408C04: "Sampler", 0x213CB439: "Sampler0", 0x563B84AF: "Sampler1", 0xFEA0F3D2: "SamplerCatchlight",
    0x1E6FEF9C: "SamplerColorMap0", 0x6968DF0A: "SamplerColorMap1", 0x115306BE: "SamplerDiffuse", 0xF8D7957A: "SamplerEnvMap",
    0x8A4E82B6: "SamplerMask", 0x0C5EC1F1: "SamplerNormal", 0xAAB4D9E9: "SamplerNormalMap0", 0xDDB3E97F: "SamplerNormalMap1",
    0x87F6474D: "SamplerReflection", 0x2B99E025: "SamplerSpecular", 0x1BBC2F12: "SamplerSpecularMap0", 0x6CBB1F84: "SamplerSpecularMap1",
    0xE6321AFC: "SamplerWaveMap", 0x574E22D6: "SamplerWaveletMap0", 0x20491240: "SamplerWaveletMap1", 0x95E1F64D: "SamplerWhitecapMap",
    0x565F8FD8: "UnknownDawntrail1", 0xE5338C17: "UnknownDawntrail2",
}

LEGACY_ROW = [("diffuse_color", 3), ("specular_strength", 1), ("specular_color", 3), ("gloss_strength", 1), ("emissive_color", 3),
              ("tile_set", "u16"), ("material_repeat", 2), ("material_skew", 2)]
DT_ROW = [("diffuse_color", 3), ("unknown1", 1), ("specular_color", 3), ("unknown2", 1), ("emissive_color", 3), ("unknown3", 1),
          ("sheen_rate", 1), ("sheen_tint", 1), ("sheen_aperture", 1), ("unknown4", 1), ("roughness", 1), ("unknown5", 1), ("metalness", 1),
          ("anisotropy", 1), ("unknown6", 1), ("sphere_mask", 1), ("unknown7", 1), ("unknown8", 1), ("shader_index", "u16"), ("tile_set", "u16"),
          ("tile_alpha", 1), ("sphere_index", "u16"), ("material_repeat", 2), ("material_skew", 2)]
LEGACY_DYE = ["diffuse", "specular", "emissive", "gloss", "specular_strength"]
DT_DYE = ["diffuse", "specular", "emissive", "scalar3", "metalness", "roughness", "sheen_rate", "sheen_tint_rate", "sheen_aperture", "anisotropy",
          "sphere_map_index", "sphere_map_mask"]


def half_to_f32_bits(h):
    f = struct.unpack("<e", struct.pack("<H", h))[0]
    if f != f:
        return None  # NaN
    return struct.unpack("<I", struct.pack("<f", f))[0]


def build(m):
    """m: dict(textures[bytes], uv_sets[(name, idx)], color_sets[(name, idx)], shpk bytes, flags u32 or None (no additional data),
    add_size, color_rows (list of lists of u16 words) or None, dye_rows (list of ints) or None, dye_width 2|4, keys[(c,v)], constants[(id, off, size)],
    samplers[(usage, flags, idx, u1, u2, u3)], values[f32 bits], mat_flags, version, tex_flags)"""
    strings = b""
    texoff = []
    if m.get("heap_order"):
        # texture names stored in another order than the offset table lists them (offsets are what counts)
        strings = m.get("heap_prefix", b"")
        pos = {}
        for i in m["heap_order"]:
            pos[i] = len(strings); strings += m["textures"][i] + b"\0"
        texoff = [pos[i] for i in range(len(m["textures"]))]
    else:
        for t in m["textures"]:
            at = strings.find(t + b"\0") if m.get("share_suffix") else -1
            if at >= 0:
                texoff.append(at)      # stored as the tail of an earlier, longer string
                continue
            texoff.append(len(strings)); strings += t + b"\0"
    uvoff = []
    for n, _ in m["uv_sets"]:
        uvoff.append(len(strings)); strings += n + b"\0"
    csoff = []
    for n, _ in m["color_sets"]:
        csoff.append(len(strings)); strings += n + b"\0"
    shpkoff = len(strings)
    strings += m["shpk"] + b"\0"
    while len(strings) % 4:
        strings += b"\0"
    add = m["additional"]
    body = b""
    if m.get("color_rows") is not None:
        for row in m["color_rows"]:
            body += b"".join(struct.pack("<H", w) for w in row)
    if m.get("dye_rows") is not None:
        for d in m["dye_rows"]:
            body += struct.pack("<H" if m["dye_width"] == 2 else "<I", d)
    mh = struct.pack("<HHHHI", len(m["values"]) * 4, len(m["keys"]), len(m["constants"]), len(m["samplers"]), m.get("mat_flags", 0))
    tail = mh + b"".join(struct.pack("<II", *k) for k in m["keys"]) + b"".join(struct.pack("<IHH", *c) for c in m["constants"])
    tail += b"".join(struct.pack("<IIBBBB", *s) for s in m["samplers"]) + b"".join(struct.pack("<I", v) for v in m["values"])
    pre = b"".join(struct.pack("<HH", o, m.get("tex_flags", 0)) for o in texoff)
    pre += b"".join(struct.pack("<HH", o, i) for o, (_, i) in zip(uvoff, m["uv_sets"]))
    pre += b"".join(struct.pack("<HH", o, i) for o, (_, i) in zip(csoff, m["color_sets"]))
    pre += strings + add + body
    total = 16 + len(pre) + len(tail)
    fh = struct.pack("<IHHHHBBBB", m.get("version", 0x1030000), total & 0xFFFF, len(body), len(strings), shpkoff, len(m["textures"]), len(m["uv_sets"]),
                     len(m["color_sets"]), len(add))
    return fh + pre + tail
