"""Parser for Rust `{:?}` (Debug) output into Python values.
struct  Name { a: 1, b: [..] }  -> {"_": "Name", "a": 1, "b": [...]}
tuple   Name(x, y)              -> {"_": "Name", "0": x, "1": y}
unit / enum variant  Name       -> "Name"   (true/false/None -> bool/None)
list [..] -> list ; tuple (..) -> tuple ; strings -> str ; ints -> int ; floats -> float"""
import struct


class ParseError(Exception):
    pass


def parse(s):
    v, i = _value(s, 0)
    i = _ws(s, i)
    if i != len(s):
        raise ParseError("trailing data at %d: %r" % (i, s[i:i + 40]))
    return v


def _ws(s, i):
    while i < len(s) and s[i] in " \n\t":
        i += 1
    return i


def _value(s, i):
    i = _ws(s, i)
    if i >= len(s):
        raise ParseError("eof")
    c = s[i]
    if c == '"':
        return _string(s, i)
    if c == "[":
        return _seq(s, i + 1, "]", list)
    if c == "(":
        return _seq(s, i + 1, ")", tuple)
    if c == "{":
        # map / set debug output
        return _seq(s, i + 1, "}", list)
    if c.isdigit() or (c == "-" and i + 1 < len(s) and (s[i + 1].isdigit() or s[i + 1:i + 4] == "inf")):
        j = i + 1
        while j < len(s) and (s[j].isalnum() or s[j] in ".+-_"):
            if s[j] in "+-" and s[j - 1] not in "eE":
                break
            j += 1
        tok = s[i:j]
        if tok == "-inf":
            return float("-inf"), j
        if any(ch in tok for ch in ".eE") and not tok.startswith("0x"):
            return float(tok), j
        return int(tok), j
    if c.isalpha() or c == "_":
        j = i
        while j < len(s) and (s[j].isalnum() or s[j] in "_:"):
            j += 1
        name = s[i:j]
        k = _ws(s, j)
        if name == "NaN":
            return float("nan"), j
        if name == "inf":
            return float("inf"), j
        if k < len(s) and s[k] == "{":
            return _struct(s, k + 1, name)
        if k < len(s) and s[k] == "(":
            vals, e = _seq(s, k + 1, ")", list)
            if name == "Some" and len(vals) == 1:
                return vals[0], e
            d = {"_": name}
            for n, v in enumerate(vals):
                d[str(n)] = v
            return d, e
        if name == "true":
            return True, j
        if name == "false":
            return False, j
        if name == "None":
            return None, j
        return name, j
    raise ParseError("unexpected %r at %d" % (c, i))


def _seq(s, i, close, ctor):
    out = []
    while True:
        i = _ws(s, i)
        if i >= len(s):
            raise ParseError("unterminated sequence")
        if s[i] == close:
            return ctor(out), i + 1
        v, i = _value(s, i)
        i = _ws(s, i)
        if i < len(s) and s[i] == ":":  # map entry k: v
            v2, i = _value(s, i + 1)
            v = (v, v2)
            i = _ws(s, i)
        out.append(v)
        if i < len(s) and s[i] == ",":
            i += 1


def _struct(s, i, name):
    d = {"_": name}
    while True:
        i = _ws(s, i)
        if i >= len(s):
            raise ParseError("unterminated struct")
        if s[i] == "}":
            return d, i + 1
        j = i
        while j < len(s) and (s[j].isalnum() or s[j] == "_"):
            j += 1
        key = s[i:j]
        j = _ws(s, j)
        if j >= len(s) or s[j] != ":":
            raise ParseError("expected ':' after field %r at %d" % (key, j))
        v, i = _value(s, j + 1)
        d[key] = v
        i = _ws(s, i)
        if i < len(s) and s[i] == ",":
            i += 1


def _string(s, i):
    assert s[i] == '"'
    i += 1
    out = []
    while True:
        if i >= len(s):
            raise ParseError("unterminated string")
        c = s[i]
        if c == '"':
            return "".join(out), i + 1
        if c == "\\":
            n = s[i + 1]
            if n == "n":
                out.append("\n"); i += 2
            elif n == "r":
                out.append("\r"); i += 2
            elif n == "t":
                out.append("\t"); i += 2
            elif n == "0":
                out.append("\0"); i += 2
            elif n == "u":
                e = s.index("}", i)
                out.append(chr(int(s[i + 3:e], 16))); i = e + 1
            elif n == "x":
                out.append(chr(int(s[i + 2:i + 4], 16))); i += 4
            else:
                out.append(n); i += 2
        else:
            out.append(c); i += 1


def f32_bits(x):
    """bits of a Python float rounded to f32 (NaN canonical)"""
    if x != x:
        return 0x7FC00000
    try:
        return struct.unpack("<I", struct.pack("<f", x))[0]
    except OverflowError:
        return 0x7F800000 if x > 0 else 0xFF800000


def f32_equal(printed, bits):
    """does the Debug-printed float denote the f32 with these bits (NaN == NaN)?"""
    nan = (bits & 0x7F800000) == 0x7F800000 and (bits & 0x7FFFFF) != 0
    if printed != printed:
        return nan
    if nan:
        return False
    return f32_bits(float(printed)) == bits
